(* Proofs for C06 (rendering half), C14 and C19: literal text through compile + execute,
   composition of node lists, comments and templatetag, the four entry points, filter chains,
   unknown names.  The big mutual fixpoints of Model/Exec.v, Model/ParseDoc.v and
   Model/ParseExpr.v are only ever opened by the one-step equations below (reflexivity on a
   fuel of the form [S f] and an explicit constructor). *)
From Coq Require Import Lia Arith Bool.
From PV Require Import Model.Api Spec.SpecLex Spec.SpecRender Spec.SpecWriter.
From PV Require Import gen.Tables Proofs.LexA Proofs.LexB.
Open Scope N_scope.

(* ====================================================================================== *)
(* small general facts                                                                      *)
(* ====================================================================================== *)

Lemma bind_ok_inv : forall (A B : Type) (r : res A) (k : A -> res B) (b : B),
  bind r k = Ok b -> exists a, r = Ok a /\ k a = Ok b.
Proof. intros A B r k b H. destruct r; cbn [bind] in H; try discriminate. eauto. Qed.

Lemma str_eqb_true : forall a b : str, str_eqb a b = true -> a = b.
Proof.
  induction a as [|x a IH]; intros [|y b] H; cbn [str_eqb] in H; try discriminate; [reflexivity|].
  apply andb_true_iff in H. destruct H as [Hx Hr]. apply N.eqb_eq in Hx. subst y.
  f_equal. apply IH. exact Hr.
Qed.

Lemma str_eqb_refl : forall a : str, str_eqb a a = true.
Proof. induction a as [|x a IH]; cbn [str_eqb]; [reflexivity|]. rewrite N.eqb_refl. exact IH. Qed.

(* big_fuel is far from small: it is never computed to a numeral *)
Lemma big_fuel_split : forall n : N, n <= 60000 -> big_fuel = (N.to_nat n + N.to_nat (60000 - n))%nat.
Proof.
  intros n H. unfold big_fuel. rewrite <- N2Nat.inj_add. f_equal. lia.
Qed.

(* ====================================================================================== *)
(* the context checks at the start of an execution                                          *)
(* ====================================================================================== *)

Lemma ident_key_model : forall k, is_ident_key k = ident_key k.
Proof. intros [|b k]; reflexivity. Qed.

Lemma keys_ok_model : forall m, forallb (fun kv => is_ident_key (fst kv)) m = keys_ok m.
Proof.
  induction m as [|kv m IH]; [reflexivity|].
  unfold keys_ok in *. cbn [forallb]. rewrite ident_key_model, IH. reflexivity.
Qed.

Lemma keys_ok_ctx_del : forall k m, keys_ok m = true -> keys_ok (ctx_del k m) = true.
Proof.
  intros k m. induction m as [|[k' v] m IH]; intros H; [reflexivity|].
  unfold keys_ok in *. cbn [forallb fst] in H. apply andb_true_iff in H. destruct H as [H1 H2].
  cbn [ctx_del]. destruct (str_eqb k k'); [exact (IH H2)|].
  cbn [forallb fst]. rewrite H1. exact (IH H2).
Qed.

Lemma keys_ok_ctx_update : forall src dst,
  keys_ok dst = true -> keys_ok src = true -> keys_ok (ctx_update dst src) = true.
Proof.
  unfold ctx_update.
  induction src as [|[k v] src IH]; intros dst Hd Hs; [exact Hd|].
  cbn [fold_left fst snd]. unfold keys_ok in Hs. cbn [forallb fst] in Hs.
  apply andb_true_iff in Hs. destruct Hs as [Hk Hs].
  apply IH; [|exact Hs].
  unfold ctx_set, keys_ok. cbn [forallb fst]. rewrite Hk.
  exact (keys_ok_ctx_del k dst Hd).
Qed.

Lemma no_exported_clash : forall (m : list (str * cval)),
  existsb (fun kv => match assoc_get (fst kv) (@nil (str * macro)) with Some _ => true | None => false end) m = false.
Proof. induction m as [|kv m IH]; [reflexivity|]. cbn [existsb assoc_get]. exact IH. Qed.

(* ====================================================================================== *)
(* one-step equations of the executor                                                       *)
(* ====================================================================================== *)

(* the text a text node writes, given the frame whose chain of templates decides the options
   (the last member's flags apply, to the nodes owned by any member: fix D42) *)
Definition html_text (fr : frame) (owner : N) (val : str) (trimL trimR after before : bool) : str :=
  let entry := last (f_chain fr) (Tpl 0 [] true [] [] [] None false false) in
  let mine := existsb (fun t => tpl_id t =? owner) (f_chain fr) in
  let v1 := if mine && tpl_lstrip entry && before
            then rev (let fix dropws (l : str) := match l with
                                                  | b :: l' => if (b =? 9) || (b =? 32) then dropws l' else l
                                                  | [] => []
                                                  end in dropws (rev val))
            else val in
  let v2 := if mine && tpl_trim entry && after
            then match v1 with 10 :: r => r | _ => v1 end else v1 in
  let ws (b : N) := mem_byte b token_space_chars in
  let fix dropl (l : str) := match l with b :: l' => if ws b then dropl l' else l | [] => [] end in
  let v3 := if trimL then dropl v2 else v2 in
  let v4 := if trimR then rev (dropl (rev v3)) else v3 in
  v4.

Lemma html_text_plain : forall fr owner val, html_text fr owner val false false false false = val.
Proof. intros. unfold html_text. rewrite !andb_false_r. reflexivity. Qed.

Definition dflt_tpl : template := Tpl 0 [] true [] [] [] None false false.

Section ExecEqs.
  Variable se : senv.
  Variable globals : list (str * cval).

  Lemma exec_nodes_0 : forall st ns, exec_nodes se globals 0 st ns = ([], Fuel).
  Proof. reflexivity. Qed.
  Lemma exec_nodes_S_nil : forall f st, exec_nodes se globals (S f) st [] = xok [] st.
  Proof. reflexivity. Qed.
  Lemma exec_nodes_S_cons : forall f st n rest,
    exec_nodes se globals (S f) st (n :: rest) =
    match exec_node se globals f st n with
    | (o1, Ok st1) => let '(o2, r) := exec_nodes se globals f st1 rest in (o1 ++ o2, r)
    | (o1, other) => (o1, other)
    end.
  Proof. reflexivity. Qed.

  Lemma exec_node_S_html : forall f st owner val trimL trimR after before,
    exec_node se globals (S f) st (NHtml owner val trimL trimR after before) =
    match top_frame st with
    | Ok fr => xok (html_text fr owner val trimL trimR after before) st
    | other => xfail [] other
    end.
  Proof. reflexivity. Qed.
  Lemma exec_node_S_comment : forall f st, exec_node se globals (S f) st NComment = xok [] st.
  Proof. reflexivity. Qed.
  Lemma exec_node_S_templatetag : forall f st c,
    exec_node se globals (S f) st (NTemplatetag c) = xok c st.
  Proof. reflexivity. Qed.
  Lemma exec_node_S_filtertag : forall f st chain body,
    exec_node se globals (S f) st (NFilterTag chain body) =
    match exec_nodes se globals f st body with
    | (o, Ok st1) =>
        match apply_tag_chain se globals f st1 (as_value (VStr o)) chain with
        | Ok (v, st2) => match to_string (vv v) with Some s => xok s st2 | None => ([], Unmod) end
        | Err _ => ([], Err 3)
        | other => xfail [] other
        end
    | (_, other) => ([], other)
    end.
  Proof. reflexivity. Qed.

  Lemma exec_template_S : forall f st t ctx,
    exec_template se globals (S f) st t ctx =
    match exec_template_unbuffered se globals f st t ctx with
    | (o, Ok st1) => xok o st1
    | (_, other) => ([], other)
    end.
  Proof. reflexivity. Qed.

  Lemma exec_template_unbuffered_S : forall f st t ctx,
    exec_template_unbuffered se globals (S f) st t ctx =
    let merged := ctx_update globals ctx in
    if negb (forallb (fun kv => is_ident_key (fst kv)) merged) then ([], Err 3)
    else if existsb (fun kv => match assoc_get (fst kv) (tpl_exported t) with Some _ => true | None => false end)
                    merged then ([], Err 3)
    else
      let '(execid, g') := g_fresh (ms_g st) in
      let fr := root_frame globals t ctx execid in
      let root := hd t (tpl_chain t) in
      match exec_nodes se globals f (mkM (fr :: ms_frames st) (ms_nodes st) g') (tpl_root root) with
      | (o, Ok st1) => xok o (pop_frame st1)
      | other => other
      end.
  Proof. reflexivity. Qed.

  Lemma eval_S_str : forall f st s, eval se globals (S f) st (EStr s) = Ok (as_value (VStr s), st).
  Proof. reflexivity. Qed.
  Lemma eval_S_filt : forall f st e0 chain,
    eval se globals (S f) st (EFilt e0 chain) =
    (do '(v, st1) <- eval se globals f st e0; apply_chain se globals f st1 v chain).
  Proof. reflexivity. Qed.

  Lemma apply_chain_0 : forall st v chain, apply_chain se globals 0 st v chain = Fuel.
  Proof. reflexivity. Qed.
  Lemma apply_chain_S_nil : forall f st v, apply_chain se globals (S f) st v [] = Ok (v, st).
  Proof. reflexivity. Qed.
  Lemma apply_chain_S_cons : forall f st v name param rest,
    apply_chain se globals (S f) st v (FCall name param :: rest) =
    (do '(p, st1) <- (match param with
                      | Some pe => eval se globals f st pe
                      | None => Ok (as_value VNil, st)
                      end);
     do r <- apply_filter_se se name v p;
     apply_chain se globals f st1 r rest).
  Proof. reflexivity. Qed.

  Lemma apply_tag_chain_0 : forall st v chain, apply_tag_chain se globals 0 st v chain = Fuel.
  Proof. reflexivity. Qed.
  Lemma apply_tag_chain_S_nil : forall f st v, apply_tag_chain se globals (S f) st v [] = Ok (v, st).
  Proof. reflexivity. Qed.
  Lemma apply_tag_chain_S_cons : forall f st v name param rest,
    apply_tag_chain se globals (S f) st v ((name, param) :: rest) =
    (do '(p, st1) <- (match param with
                      | Some pe => eval se globals f st pe
                      | None => Ok (as_value VNil, st)
                      end);
     do r <- apply_filter_se se name v p;
     apply_tag_chain se globals f st1 r rest).
  Proof. reflexivity. Qed.
End ExecEqs.

(* ====================================================================================== *)
(* one-step equations of the document parser                                                *)
(* ====================================================================================== *)

Section ParseEqs.
  Variable se : senv.

  Lemma parse_doc_S_nil : forall f st, parse_doc se (S f) st [] = Ok ([], st).
  Proof. reflexivity. Qed.
  Lemma parse_doc_S_cons : forall f st a ts,
    parse_doc se (S f) st (a :: ts) =
    (do '(n, r, st1) <- parse_elem se f 0 st (a :: ts);
     do '(ns, st2) <- parse_doc se f st1 r;
     Ok (n :: ns, st2)).
  Proof. reflexivity. Qed.

  Lemma parse_elem_S_html : forall f level st v l c tr tL tR af bf r,
    parse_elem se (S f) level st (mkA (mkTok THTML v l c tr) tL tR af bf :: r) =
    Ok (NHtml (t_id (fst st)) v tL tR af bf, r, st).
  Proof. reflexivity. Qed.

  Lemma compile_src_S : forall f name isstr src g,
    compile_src se (S f) name isstr src g =
    match lex src with
    | LexFuel => Fuel
    | LexFail _ => Err 1
    | LexOk toks =>
        let '(id, g1) := g_fresh g in
        let tst := mkT id name isstr [] [] None in
        do '(root, (tst', g2)) <- parse_doc se f (tst, g1) (annotate None toks);
        Ok (Tpl id name isstr root (t_blocks tst') (t_exported tst') (t_parent tst') (se_trim se) (se_lstrip se), g2)
    end.
  Proof. reflexivity. Qed.

  Lemma parse_tag_0 : forall level st ts, parse_tag se 0 level st ts = Fuel.
  Proof. reflexivity. Qed.
  Lemma parse_tag_S_nil : forall f level st, parse_tag se (S f) level st [] = Err 2.
  Proof. reflexivity. Qed.
  (* the head of parseTagElement: identifier, registered, not banned - then dispatch *)
  Lemma parse_tag_S_cons : forall f level st nm r,
    parse_tag se (S f) level st (nm :: r) =
    if negb (a_is_ident nm) then Err 2
    else
      let name := tval (a_tok nm) in
      if negb (str_in name (cfg_tags (se_cfg se))) then Err 2
      else if str_in name (cfg_banned_tags (se_cfg se)) then Err 2
      else
        match assoc_get name tag_impl with
        | None => Unmod
        | Some impl =>
            let fix collect (l : list atok) (acc : list token) : option (list token * list atok) :=
              match l with
              | [] => None
              | x :: l' => if a_is_sym x [37; 125] then Some (rev acc, l') else collect l' (a_tok x :: acc)
              end in
            match collect r [] with
            | None => Err 2
            | Some (args, body) => tag_parser se f (S level) impl args st body
            end
        end.
  Proof. reflexivity. Qed.

  (* tagTemplateTagParser *)
  Lemma tag_parser_S_templatetag : forall f level args st ts,
    tag_parser se (S f) level
      [116; 97; 103; 84; 101; 109; 112; 108; 97; 116; 101; 84; 97; 103; 80; 97; 114; 115; 101; 114] args st ts =
    match match_ident args with
    | None => Err 2
    | Some (w, rest) =>
        match assoc_get w templatetag_map with
        | None => Err 2
        | Some out => match rest with [] => Ok (NTemplatetag out, ts, st) | _ => Err 2 end
        end
    end.
  Proof. reflexivity. Qed.

  (* tagCommentParser *)
  Lemma tag_parser_S_comment : forall f level args st ts,
    tag_parser se (S f) level
      [116; 97; 103; 67; 111; 109; 109; 101; 110; 116; 80; 97; 114; 115; 101; 114] args st ts =
    (do r <- skip_until [ [101; 110; 100; 99; 111; 109; 109; 101; 110; 116] ] ts;
     match args with [] => Ok (NComment, r, st) | _ => Err 2 end).
  Proof. reflexivity. Qed.
End ParseEqs.

(* ====================================================================================== *)
(* C06: a token list made of text tokens only                                               *)
(* ====================================================================================== *)

Definition plain_atok (t : token) : atok := mkA t false false false false.
Definition html_node (owner : N) (t : token) : node := NHtml owner (tval t) false false false false.

Lemma html_not_trim_sym : forall t, tok_is_html t = true -> tok_is_trim_sym t = false.
Proof. intros t H. unfold tok_is_html, tok_is_trim_sym in *. destruct (ttyp t); try discriminate; reflexivity. Qed.

(* no neighbouring tag: no trimming flag, no block-option flag *)
Lemma annotate_all_html : forall toks prev,
  forallb tok_is_html toks = true ->
  match prev with Some p => tok_is_html p = true | None => True end ->
  annotate prev toks = map plain_atok toks.
Proof.
  induction toks as [|t toks IH]; intros prev H Hp; [reflexivity|].
  cbn [forallb] in H. apply andb_true_iff in H. destruct H as [Ht Hr].
  cbn [annotate map]. rewrite (IH (Some t) Hr Ht). f_equal.
  unfold plain_atok.
  assert (E1 : match prev with Some p => tok_is_trim_sym p | None => false end = false).
  { destruct prev as [p|]; [apply html_not_trim_sym; exact Hp|reflexivity]. }
  assert (E2 : match prev with
               | Some p => negb (tok_is_html p) && str_eqb (tval p) [37; 125]
               | None => false end = false).
  { destruct prev as [p|]; [rewrite Hp; reflexivity|reflexivity]. }
  rewrite E1, E2.
  destruct toks as [|n toks']; [reflexivity|].
  cbn [forallb] in Hr. apply andb_true_iff in Hr. destruct Hr as [Hn _].
  rewrite (html_not_trim_sym n Hn), Hn. reflexivity.
Qed.

Lemma tok_is_html_inv : forall t, tok_is_html t = true ->
  t = mkTok THTML (tval t) (tline t) (tcol t) (ttrim t).
Proof.
  intros [ty v l c tr] H. unfold tok_is_html in H. cbn [ttyp] in H.
  destruct ty; try discriminate. reflexivity.
Qed.

Section TextOnly.
  Variable se : senv.
  Variable globals : list (str * cval).

  Lemma parse_doc_all_html : forall toks k st,
    forallb tok_is_html toks = true ->
    parse_doc se (S (length toks + k)) st (map plain_atok toks) =
    Ok (map (html_node (t_id (fst st))) toks, st).
  Proof.
    induction toks as [|t toks IH]; intros k st H.
    - apply parse_doc_S_nil.
    - cbn [forallb] in H. apply andb_true_iff in H. destruct H as [Ht Hr].
      cbn [map length Nat.add]. rewrite parse_doc_S_cons.
      unfold plain_atok at 1. rewrite (tok_is_html_inv t Ht) at 1.
      rewrite parse_elem_S_html. cbn [bind].
      rewrite (IH k st Hr). cbn [bind]. reflexivity.
  Qed.

  Lemma exec_nodes_all_html : forall toks k st fr owner,
    top_frame st = Ok fr ->
    exec_nodes se globals (S (length toks + k)) st (map (html_node owner) toks) =
    xok (flat_map tval toks) st.
  Proof.
    induction toks as [|t toks IH]; intros k st fr owner Hfr.
    - apply exec_nodes_S_nil.
    - cbn [map length Nat.add flat_map]. rewrite exec_nodes_S_cons.
      unfold html_node at 1. rewrite exec_node_S_html, Hfr, html_text_plain.
      unfold xok at 1. rewrite (IH k st fr owner Hfr). reflexivity.
  Qed.

  (* compile: the template of a text-only source *)
  Definition text_tpl (id : N) (name : str) (isstr : bool) (toks : list token) : template :=
    Tpl id name isstr (map (html_node id) toks) [] [] None (se_trim se) (se_lstrip se).

  Lemma compile_all_html : forall src toks k name isstr g,
    lex src = LexOk toks ->
    forallb tok_is_html toks = true ->
    compile_src se (S (S (length toks + k))) name isstr src g =
    Ok (text_tpl (g_nid g) name isstr toks, mkG (g_nid g + 1) (g_log g)).
  Proof.
    intros src toks k name isstr g Hlex Hall.
    rewrite compile_src_S, Hlex. cbn [g_fresh].
    rewrite (annotate_all_html toks None Hall I).
    rewrite (parse_doc_all_html toks k _ Hall). reflexivity.
  Qed.

  Lemma exec_text_tpl : forall toks k id name isstr frames nodes g ctx,
    keys_ok (ctx_update globals ctx) = true ->
    exec_template_unbuffered se globals (S (S (length toks + k))) (mkM frames nodes g)
                             (text_tpl id name isstr toks) ctx =
    xok (flat_map tval toks) (mkM frames nodes (mkG (g_nid g + 1) (g_log g))).
  Proof.
    intros toks k id name isstr frames nodes g ctx Hk.
    rewrite exec_template_unbuffered_S. cbv zeta.
    rewrite keys_ok_model, Hk. cbn [negb].
    unfold text_tpl at 1. cbn [tpl_exported]. rewrite no_exported_clash.
    cbn [g_fresh ms_g ms_frames ms_nodes].
    change (tpl_chain (text_tpl id name isstr toks)) with [text_tpl id name isstr toks].
    cbn [hd]. unfold text_tpl. cbn [tpl_root].
    erewrite exec_nodes_all_html; [|reflexivity].
    reflexivity.
  Qed.
End TextOnly.

(* ---------- through the API ---------- *)

Lemma flat_map_tval_html_tokens : forall s p, flat_map tval (html_tokens s p) = s.
Proof. intros [|b s] p; [reflexivity|]. cbn [html_tokens flat_map tval]. apply app_nil_r. Qed.

Lemma html_tokens_all_html : forall s p, forallb tok_is_html (html_tokens s p) = true.
Proof. intros [|b s] p; reflexivity. Qed.

(* a source whose tokens are all text renders to the concatenation of the token values,
   whatever the world (as long as the token count is within the model's fuel) *)
Lemma render_all_html : forall (w : world) (src : str) (toks : list token) (ctx : list (str * cval)),
  lex src = LexOk toks ->
  forallb tok_is_html toks = true ->
  N.of_nat (length toks) <= 59000 ->
  keys_ok (ctx_update (w_globals w) ctx) = true ->
  api_render_string w src ctx = OOk (flat_map tval toks).
Proof.
  intros w src toks ctx Hlex Hall Hlen Hk.
  unfold api_render_string.
  assert (Hf : big_fuel = S (S (length toks + (big_fuel - length toks - 2)))).
  { rewrite (big_fuel_split 59002) by lia.
    assert (H2 : (2 <= N.to_nat 59002)%nat) by lia.
    assert (H3 : (length toks <= N.to_nat 59000)%nat) by lia.
    assert (H4 : (N.to_nat 59002 = N.to_nat 59000 + 2)%nat) by lia.
    lia. }
  rewrite Hf at 1.
  rewrite (compile_all_html (world_senv w) src toks _ _ true g0 Hlex Hall).
  unfold run_template. rewrite Hf at 1.
  rewrite (exec_text_tpl (world_senv w) (w_globals w) toks _ _ _ true [] [] _ ctx Hk).
  reflexivity.
Qed.

Lemma render_text_identity : forall (w : world) (s : str) (ctx : list (str * cval)),
  delim_free s = true ->
  keys_ok (ctx_update (w_globals w) ctx) = true ->
  api_render_string w s ctx = OOk s.
Proof.
  intros w s ctx Hs Hk.
  rewrite <- (flat_map_tval_html_tokens s (1, 1)%Z) at 2.
  apply render_all_html.
  - (* the lexer half *)
    revert Hs. generalize s. exact LexA.lex_text_identity_g.
  - apply html_tokens_all_html.
  - destruct s; cbn [html_tokens length]; lia.
  - exact Hk.
Qed.

(* ---------- literal fragments: text, verbatim blocks, comments ---------- *)

Lemma html_tokens_length : forall s p, (length (html_tokens s p) <= 1)%nat.
Proof. intros [|b s] p; cbn [html_tokens length]; lia. Qed.

Lemma literal_frags_toks : forall l p,
  forallb frag_literal l = true ->
  forallb tok_is_html (frags_toks l p) = true /\
  flat_map tval (frags_toks l p) = frags_text l /\
  (length (frags_toks l p) <= length l)%nat.
Proof.
  induction l as [|f l IH]; intros p H; [repeat split; reflexivity || (cbn; lia)|].
  cbn [forallb] in H. apply andb_true_iff in H. destruct H as [Hf Hl].
  unfold frags_text in *. cbn [frags_toks flat_map length].
  destruct (IH (advs p (frag_src f)) Hl) as [I1 [I2 I3]].
  destruct f as [t|b|c|src toks]; cbn [frag_literal] in Hf; try discriminate; cbn [frag_text].
  - rewrite forallb_app, flat_map_app, app_length, html_tokens_all_html, flat_map_tval_html_tokens, I1, I2.
    pose proof (html_tokens_length t p). repeat split; lia.
  - rewrite forallb_app, flat_map_app, app_length, html_tokens_all_html, flat_map_tval_html_tokens, I1, I2.
    pose proof (html_tokens_length b (advs p s_verbatim_start)). repeat split; lia.
  - rewrite I1, I2. repeat split; cbn [app]; lia.
Qed.

Lemma render_literal_frags : LexB.verb_prefix_check = true ->
  forall (w : world) (l : list frag) (ctx : list (str * cval)),
  frags_ok l -> forallb frag_literal l = true ->
  N.of_nat (length l) <= 59000 ->
  keys_ok (ctx_update (w_globals w) ctx) = true ->
  api_render_string w (frags_src l) ctx = OOk (frags_text l).
Proof.
  intros Hchk w l ctx Hok Hlit Hlen Hk.
  destruct (literal_frags_toks l (1, 1)%Z Hlit) as [H1 [H2 H3]].
  rewrite <- H2. apply render_all_html.
  - exact (LexB.lex_compose Hchk l Hok).
  - exact H1.
  - lia.
  - exact Hk.
Qed.

(* ====================================================================================== *)
(* C06: composition at node level                                                           *)
(* ====================================================================================== *)

Section Compose.
  Variable se : senv.
  Variable globals : list (str * cval).

  (* executing a ++ b is executing a and then, from the state a leaves, b; the list a uses up
     one unit of fuel per node *)
  Lemma exec_nodes_app : forall (a b : list node) (f : nat) (st : mstate),
    exec_nodes se globals (length a + f) st (a ++ b) =
    (let '(o1, r1) := exec_nodes se globals (length a + f) st a in
     match r1 with
     | Ok st1 => let '(o2, r2) := exec_nodes se globals f st1 b in (o1 ++ o2, r2)
     | _ => (o1, r1)
     end).
  Proof.
    induction a as [|n a IH]; intros b f st.
    - cbn [length Nat.add app]. destruct f as [|f].
      + rewrite !exec_nodes_0. reflexivity.
      + rewrite exec_nodes_S_nil. unfold xok.
        destruct (exec_nodes se globals (S f) st b) as [o2 r2]. reflexivity.
    - cbn [length Nat.add app]. rewrite !exec_nodes_S_cons.
      destruct (exec_node se globals (length a + f) st n) as [o1 r1].
      destruct r1 as [st1| | | |]; try reflexivity.
      rewrite IH.
      destruct (exec_nodes se globals (length a + f) st1 a) as [oa ra].
      destruct ra as [st2| | | |]; try reflexivity.
      destruct (exec_nodes se globals f st2 b) as [o2 r2].
      rewrite app_assoc. reflexivity.
  Qed.

  (* ... hence what a ++ b has written always starts with what a has written *)
  Lemma exec_nodes_app_prefix : forall (a b : list node) (f : nat) (st : mstate),
    is_prefix_of (fst (exec_nodes se globals (length a + f) st a))
                 (fst (exec_nodes se globals (length a + f) st (a ++ b))).
  Proof.
    intros a b f st. rewrite exec_nodes_app.
    destruct (exec_nodes se globals (length a + f) st a) as [o1 r1].
    destruct r1 as [st1| | | |]; try (exists []; cbn [fst]; symmetry; apply app_nil_r).
    destruct (exec_nodes se globals f st1 b) as [o2 r2]. exists o2. reflexivity.
  Qed.

  (* a failing run of a node list stops at one node: everything before it has run to the end,
     and what has been written is their complete output followed by what the failing node
     wrote before it failed *)
  Lemma exec_nodes_fail_decomp : forall (ns : list node) (fuel : nat) (st : mstate) (o : str) (r : res mstate),
    (length ns < fuel)%nat ->
    exec_nodes se globals fuel st ns = (o, r) -> res_is_ok r = false ->
    exists pre n post f o1 st1 on,
      ns = pre ++ n :: post /\ fuel = (length pre + S f)%nat /\
      exec_nodes se globals fuel st pre = (o1, Ok st1) /\
      exec_node se globals f st1 n = (on, r) /\
      o = o1 ++ on.
  Proof.
    induction ns as [|n ns IH]; intros fuel st o r Hlen Hrun Hr.
    - destruct fuel as [|f]; [cbn [length] in Hlen; lia|].
      rewrite exec_nodes_S_nil in Hrun. injection Hrun as _ Hx. subst r. discriminate.
    - destruct fuel as [|f]; [lia|]. cbn [length] in Hlen.
      rewrite exec_nodes_S_cons in Hrun.
      destruct (exec_node se globals f st n) as [o1 r1] eqn:En.
      destruct r1 as [st1| | | |].
      2-5: injection Hrun as Ho Hx; subst o r;
           exists [], n, ns, f, [], st, o1; cbn [app length Nat.add];
           rewrite exec_nodes_S_nil; repeat split; exact En.
      destruct (exec_nodes se globals f st1 ns) as [o2 r2] eqn:Ens.
      injection Hrun as Ho Hx. subst o r2.
      destruct (IH f st1 o2 r ltac:(lia) Ens Hr) as (pre & m & post & f' & oa & sta & om & E1 & E2 & E3 & E4 & E5).
      exists (n :: pre), m, post, f', (o1 ++ oa), sta, om.
      subst ns o2. cbn [app length Nat.add]. rewrite <- E2.
      rewrite exec_nodes_S_cons, En, E3. rewrite app_assoc. repeat split. exact E4.
  Qed.

  (* conversely: if the nodes before n run to the end and n fails, that is the result *)
  Lemma exec_nodes_fail_at : forall (pre : list node) (n : node) (post : list node) (f : nat)
                                    (st st1 : mstate) (o1 on : str) (r : res mstate),
    exec_nodes se globals (length pre + S f) st pre = (o1, Ok st1) ->
    exec_node se globals f st1 n = (on, r) -> res_is_ok r = false ->
    exec_nodes se globals (length pre + S f) st (pre ++ n :: post) = (o1 ++ on, r).
  Proof.
    intros pre n post f st st1 o1 on r Hpre Hn Hr.
    rewrite exec_nodes_app, Hpre, exec_nodes_S_cons, Hn.
    destruct r; try discriminate; reflexivity.
  Qed.

  (* comments and templatetag *)
  Lemma comment_emits_nothing : forall f st, exec_node se globals (S f) st NComment = ([], Ok st).
  Proof. reflexivity. Qed.
  Lemma templatetag_exact : forall f st c, exec_node se globals (S f) st (NTemplatetag c) = (c, Ok st).
  Proof. reflexivity. Qed.
End Compose.

(* parse level: the argument of templatetag goes through the table, a miss is an error *)
Lemma templatetag_parse : forall se f level t st ts out,
  is_typ t TIdentifier = true ->
  assoc_get (tval t) templatetag_map = Some out ->
  tag_parser se (S f) level
    [116; 97; 103; 84; 101; 109; 112; 108; 97; 116; 101; 84; 97; 103; 80; 97; 114; 115; 101; 114]
    [t] st ts = Ok (NTemplatetag out, ts, st).
Proof.
  intros se f level t st ts out Ht Hm. rewrite tag_parser_S_templatetag.
  unfold match_ident. rewrite Ht, Hm. reflexivity.
Qed.

Lemma templatetag_parse_unknown : forall se f level t rest st ts,
  assoc_get (tval t) templatetag_map = None ->
  tag_parser se (S f) level
    [116; 97; 103; 84; 101; 109; 112; 108; 97; 116; 101; 84; 97; 103; 80; 97; 114; 115; 101; 114]
    (t :: rest) st ts = Err 2.
Proof.
  intros se f level t rest st ts Hm. rewrite tag_parser_S_templatetag.
  unfold match_ident. destruct (is_typ t TIdentifier); [rewrite Hm|]; reflexivity.
Qed.

(* parse level: a comment tag becomes the node that emits nothing, whatever it encloses *)
Lemma comment_parse : forall se f level st ts r,
  skip_until [ [101; 110; 100; 99; 111; 109; 109; 101; 110; 116] ] ts = Ok r ->
  tag_parser se (S f) level
    [116; 97; 103; 67; 111; 109; 109; 101; 110; 116; 80; 97; 114; 115; 101; 114] [] st ts =
  Ok (NComment, r, st).
Proof. intros se f level st ts r H. rewrite tag_parser_S_comment, H. reflexivity. Qed.

(* ====================================================================================== *)
(* C14: the four entry points                                                               *)
(* ====================================================================================== *)

Section Writers.
  Variable se : senv.
  Variable globals : list (str * cval).

  (* the only difference between the two executors: the buffered one hands out its output
     only on success *)
  Lemma buffered_vs_unbuffered : forall f st t ctx,
    exec_template se globals (S f) st t ctx =
    (let '(o, r) := exec_template_unbuffered se globals f st t ctx in
     (if res_is_ok r then o else [], r)).
  Proof.
    intros. rewrite exec_template_S.
    destruct (exec_template_unbuffered se globals f st t ctx) as [o r].
    destruct r; reflexivity.
  Qed.

  Lemma buffer_and_execute_spec : forall f st t ctx,
    buffer_and_execute se globals f st t ctx =
    (let '(o, r) := exec_template_unbuffered se globals f st t ctx in
     match failure_of r with None => inl o | Some x => inr x end).
  Proof.
    intros. unfold buffer_and_execute. rewrite exec_template_S.
    destruct (exec_template_unbuffered se globals f st t ctx) as [o r].
    destruct r; reflexivity.
  Qed.

  Lemma w_write_unlimited : forall w s, w_fail_after w = None -> w_write w s = (mkW (w_buf w ++ s) None, true).
  Proof. intros w s H. unfold w_write. rewrite H. reflexivity. Qed.

  (* same bytes, same failures *)
  Lemma variants_agree : forall f st t ctx (w : writer),
    w_fail_after w = None ->
    execute_bytes se globals f st t ctx = execute se globals f st t ctx /\
    match execute se globals f st t ctx with
    | inl o =>
        execute_writer se globals f st t ctx w = (mkW (w_buf w ++ o) None, WOk) /\
        execute_writer_unbuffered se globals f st t ctx w = (mkW (w_buf w ++ o) None, WOk)
    | inr x =>
        execute_writer se globals f st t ctx w = (w, WExecFail x) /\
        snd (execute_writer_unbuffered se globals f st t ctx w) = WExecFail x
    end.
  Proof.
    intros f st t ctx w Hw. split; [reflexivity|].
    unfold execute, execute_writer, execute_writer_unbuffered.
    rewrite buffer_and_execute_spec.
    destruct (exec_template_unbuffered se globals f st t ctx) as [o r].
    destruct r as [st1|k| | |s]; cbn [failure_of snd].
    - rewrite (w_write_unlimited w o Hw). cbn [fst]. split; reflexivity.
    - split; reflexivity.
    - split; reflexivity.
    - split; reflexivity.
    - split; reflexivity.
  Qed.

  (* ExecuteWriter: when execution fails nothing reaches the writer - any writer *)
  Lemma writer_all_or_nothing : forall f st t ctx (w : writer) (w' : writer) (x : failure),
    execute_writer se globals f st t ctx w = (w', WExecFail x) -> w' = w.
  Proof.
    intros f st t ctx w w' x. unfold execute_writer.
    destruct (buffer_and_execute se globals f st t ctx) as [o|y].
    - destruct (w_write w o) as [w1 ok]. destruct ok; intros H; discriminate.
    - intros H. injection H as H _. symmetry. exact H.
  Qed.

  (* ... and it fails with the execution's error exactly when Execute does *)
  Lemma writer_fails_iff : forall f st t ctx (w : writer) (x : failure),
    snd (execute_writer se globals f st t ctx w) = WExecFail x <->
    execute se globals f st t ctx = inr x.
  Proof.
    intros f st t ctx w x. unfold execute, execute_writer.
    destruct (buffer_and_execute se globals f st t ctx) as [o|y].
    - destruct (w_write w o) as [w1 ok]. destruct ok; cbn [snd]; split; intros H; discriminate.
    - cbn [snd]. split; intros H; injection H as H; subst; reflexivity.
  Qed.

  (* the writer's own error comes back to the caller; the writer then holds what fitted *)
  Lemma writer_error_returned : forall f st t ctx (w : writer) (o : str) (n : nat),
    execute se globals f st t ctx = inl o ->
    w_fail_after w = Some n -> (n < length (w_buf w) + length o)%nat ->
    execute_writer se globals f st t ctx w =
      (mkW (w_buf w ++ firstn (n - length (w_buf w)) o) (Some n), WWriteErr).
  Proof.
    intros f st t ctx w o n He Hw Hn. unfold execute in He. unfold execute_writer. rewrite He.
    unfold w_write. rewrite Hw.
    destruct (Nat.leb_spec (length (w_buf w) + length o) n) as [Hle|Hgt]; [lia|reflexivity].
  Qed.

  (* ... and a writer with room left never produces one *)
  Lemma writer_ok_written : forall f st t ctx (w : writer) (o : str),
    execute se globals f st t ctx = inl o ->
    match w_fail_after w with None => True | Some n => (length (w_buf w) + length o <= n)%nat end ->
    execute_writer se globals f st t ctx w = (mkW (w_buf w ++ o) (w_fail_after w), WOk).
  Proof.
    intros f st t ctx w o He Hw. unfold execute in He. unfold execute_writer. rewrite He.
    unfold w_write. destruct (w_fail_after w) as [n|]; [|reflexivity].
    destruct (Nat.leb_spec (length (w_buf w) + length o) n) as [Hle|Hgt]; [reflexivity|lia].
  Qed.

  Lemma writer_error_only_from_writer : forall f st t ctx (w w' : writer),
    execute_writer se globals f st t ctx w = (w', WWriteErr) ->
    exists o n, execute se globals f st t ctx = inl o /\ w_fail_after w = Some n /\
                (n < length (w_buf w) + length o)%nat.
  Proof.
    intros f st t ctx w w'. unfold execute, execute_writer.
    destruct (buffer_and_execute se globals f st t ctx) as [o|y]; [|intros H; discriminate].
    unfold w_write. destruct (w_fail_after w) as [n|]; [|intros H; discriminate].
    destruct (Nat.leb_spec (length (w_buf w) + length o) n) as [Hle|Hgt]; [intros H; discriminate|].
    intros _. exists o, n. repeat split. exact Hgt.
  Qed.

  (* unbuffered: what reached an unlimited writer is the output-so-far of the run *)
  Lemma unbuffered_written : forall f st t ctx (w : writer),
    w_fail_after w = None ->
    execute_writer_unbuffered se globals f st t ctx w =
    (mkW (w_buf w ++ fst (exec_template_unbuffered se globals f st t ctx)) None,
     match failure_of (snd (exec_template_unbuffered se globals f st t ctx)) with
     | None => WOk | Some x => WExecFail x end).
  Proof.
    intros f st t ctx w Hw. unfold execute_writer_unbuffered.
    destruct (exec_template_unbuffered se globals f st t ctx) as [o r].
    rewrite (w_write_unlimited w o Hw). reflexivity.
  Qed.

  (* an unbuffered run that fails has either rejected the context (nothing written) or
     stopped at one node of the root template's node list: all nodes before it ran to the
     end, and what was written is their complete output plus what the failing node had
     written itself *)
  Lemma unbuffered_fail_shape : forall f st t ctx (o : str) (r : res mstate),
    exec_template_unbuffered se globals (S f) st t ctx = (o, r) -> res_is_ok r = false ->
    (length (tpl_root (hd t (tpl_chain t))) < f)%nat ->
    (o = [] /\ r = Err 3) \/
    exists st0 pre n post f' o1 st1 on,
      st0 = mkM (root_frame globals t ctx (g_nid (ms_g st)) :: ms_frames st) (ms_nodes st)
                (mkG (g_nid (ms_g st) + 1) (g_log (ms_g st))) /\
      tpl_root (hd t (tpl_chain t)) = pre ++ n :: post /\ f = (length pre + S f')%nat /\
      exec_nodes se globals f st0 pre = (o1, Ok st1) /\
      exec_node se globals f' st1 n = (on, r) /\
      o = o1 ++ on.
  Proof.
    intros f st t ctx o r Hrun Hr Hlen.
    rewrite exec_template_unbuffered_S in Hrun. cbv zeta in Hrun.
    destruct (negb (forallb (fun kv => is_ident_key (fst kv)) (ctx_update globals ctx))).
    { left. injection Hrun as H1 H2. split; congruence. }
    destruct (existsb _ (ctx_update globals ctx)).
    { left. injection Hrun as H1 H2. split; congruence. }
    right. cbn [g_fresh] in Hrun.
    match type of Hrun with context [exec_nodes se globals f ?s ?l] =>
      remember s as st0 eqn:Hst0; destruct (exec_nodes se globals f st0 l) as [o' r'] eqn:En end.
    assert (Hx : o' = o /\ r' = r).
    { destruct r'; injection Hrun as H1 H2; subst; try (split; reflexivity). discriminate. }
    destruct Hx as [-> ->].
    destruct (exec_nodes_fail_decomp se globals _ f st0 o r Hlen En Hr)
      as (pre & n & post & f' & o1 & st1 & on & E1 & E2 & E3 & E4 & E5).
    exists st0, pre, n, post, f', o1, st1, on. repeat split; assumption.
  Qed.
End Writers.

(* ====================================================================================== *)
(* C19: filter chains, unknown names                                                        *)
(* ====================================================================================== *)

Lemma fold_left_bind_stuck : forall (step : str -> value -> res value) names (r : res value),
  res_is_ok r = false -> fold_left (fun acc n => bind acc (step n)) names r = r.
Proof.
  intros step names. induction names as [|n names IH]; intros r Hr; [reflexivity|].
  cbn [fold_left]. destruct r; try discriminate; cbn [bind]; apply IH; reflexivity.
Qed.

Section Chains.
  Variable se : senv.
  Variable globals : list (str * cval).

  (* the filter tag's chain is the expression chain *)
  Lemma tag_chain_is_chain : forall (f : nat) (st : mstate) (v : value) (chain : list fcall),
    apply_tag_chain se globals f st v (map untag chain) = apply_chain se globals f st v chain.
  Proof.
    induction f as [|f IH]; intros st v chain; [reflexivity|].
    destruct chain as [|[name param] rest]; [reflexivity|].
    cbn [map untag]. rewrite apply_tag_chain_S_cons, apply_chain_S_cons.
    destruct (match param with Some pe => eval se globals f st pe | None => Ok (as_value VNil, st) end)
      as [[p st1]| | | |]; cbn [bind]; try reflexivity.
    destruct (apply_filter_se se name v p); cbn [bind]; try reflexivity.
    apply IH.
  Qed.

  Lemma tag_chain_is_chain' : forall (f : nat) (st : mstate) (v : value) (chain : list (str * option expr)),
    apply_tag_chain se globals f st v chain = apply_chain se globals f st v (map retag chain).
  Proof.
    intros. rewrite <- tag_chain_is_chain. rewrite map_map.
    f_equal. rewrite <- (map_id chain) at 1. apply map_ext. intros [n p]. reflexivity.
  Qed.

  (* v|c1|c2 is (v|c1)|c2 *)
  Lemma apply_chain_app : forall (c1 c2 : list fcall) (f : nat) (st : mstate) (v : value),
    apply_chain se globals (length c1 + f) st v (c1 ++ c2) =
    (do '(r, st1) <- apply_chain se globals (length c1 + f) st v c1;
     apply_chain se globals f st1 r c2).
  Proof.
    induction c1 as [|[name param] c1 IH]; intros c2 f st v.
    - cbn [length Nat.add app]. destruct f as [|f]; [reflexivity|].
      rewrite apply_chain_S_nil. reflexivity.
    - cbn [length Nat.add app]. rewrite !apply_chain_S_cons.
      destruct (match param with Some pe => eval se globals (length c1 + f) st pe | None => Ok (as_value VNil, st) end)
        as [[p st1]| | | |]; cbn [bind]; try reflexivity.
      destruct (apply_filter_se se name v p); cbn [bind]; try reflexivity.
      apply IH.
  Qed.

  (* one link of a chain: the parameter (if any) is evaluated in the current state, the
     filter applied to the value so far, and the rest of the chain continues on the result *)
  Lemma chain_left_to_right : forall (f : nat) (st : mstate) (v : value),
    apply_chain se globals (S f) st v [] = Ok (v, st) /\
    forall name param rest,
      apply_chain se globals (S f) st v (FCall name param :: rest) =
      (do '(p, st1) <- (match param with
                        | Some pe => eval se globals f st pe
                        | None => Ok (as_value VNil, st)
                        end);
       do r <- apply_filter_se se name v p;
       apply_chain se globals f st1 r rest).
  Proof. intros. split; [reflexivity|]. intros. reflexivity. Qed.

  (* parameterless filters: a left fold, for chains of any length *)
  Lemma apply_chain_fold : forall (names : list str) (f : nat) (st : mstate) (v : value),
    (length names < f)%nat ->
    apply_chain se globals f st v (map (fun n => FCall n None) names) =
    match fold_filters (fun n x => apply_filter_se se n x (as_value VNil)) names v with
    | Ok r => Ok (r, st)
    | Err k => Err k
    | Unmod => Unmod
    | Fuel => Fuel
    | Panic s => Panic s
    end.
  Proof.
    unfold fold_filters.
    induction names as [|n names IH]; intros f st v Hf.
    - destruct f as [|f]; [cbn [length] in Hf; lia|]. reflexivity.
    - destruct f as [|f]; [lia|]. cbn [length] in Hf.
      cbn [map fold_left bind]. rewrite apply_chain_S_cons. cbn [bind].
      destruct (apply_filter_se se n v (as_value VNil)) as [r|k| | |s] eqn:E; cbn [bind].
      + apply IH. lia.
      + rewrite fold_left_bind_stuck; reflexivity.
      + rewrite fold_left_bind_stuck; reflexivity.
      + rewrite fold_left_bind_stuck; reflexivity.
      + rewrite fold_left_bind_stuck; reflexivity.
  Qed.

  (* {% filter chain %}body{% endfilter %} writes what {{ "<rendered body>"|chain }} evaluates to *)
  Lemma filter_tag_is_chain : forall (f : nat) (st st1 : mstate) (chain : list fcall) (body : list node) (o : str),
    exec_nodes se globals (S f) st body = (o, Ok st1) ->
    exec_node se globals (S (S f)) st (NFilterTag (map untag chain) body) =
    match eval se globals (S (S f)) st1 (EFilt (EStr o) chain) with
    | Ok (v, st2) => match to_string (vv v) with Some s => xok s st2 | None => ([], Unmod) end
    | Err _ => ([], Err 3)
    | other => xfail [] other
    end.
  Proof.
    intros f st st1 chain body o Hb.
    rewrite exec_node_S_filtertag, Hb, tag_chain_is_chain.
    rewrite eval_S_filt, eval_S_str. cbn [bind]. reflexivity.
  Qed.

  (* a name without implementation that is not in the set's filter list is an error *)
  Lemma apply_filter_unknown : forall name x p,
    assoc_get name filter_impl = None -> str_in name (cfg_filters (se_cfg se)) = false ->
    apply_filter_se se name x p = Err 5.
  Proof. intros name x p H1 H2. unfold apply_filter_se. rewrite H1, H2. reflexivity. Qed.

  (* FINDING: the filter tag does not check its filter names when the template is compiled;
     an unknown name there is an execution error (and nothing is written) *)
  Lemma filter_tag_unknown_exec_error : forall f st st1 name param rest body o,
    assoc_get name filter_impl = None -> str_in name (cfg_filters (se_cfg se)) = false ->
    exec_nodes se globals (S f) st body = (o, Ok st1) ->
    match param with
    | Some pe => res_is_ok (eval se globals f st1 pe) = true
    | None => True
    end ->
    exec_node se globals (S (S f)) st (NFilterTag ((name, param) :: rest) body) = ([], Err 3).
  Proof.
    intros f st st1 name param rest body o H1 H2 Hb Hp.
    rewrite exec_node_S_filtertag, Hb, apply_tag_chain_S_cons.
    destruct param as [pe|].
    - destruct (eval se globals f st1 pe) as [[p st2]| | | |]; try discriminate.
      cbn [bind]. rewrite (apply_filter_unknown name _ p H1 H2). reflexivity.
    - cbn [bind]. rewrite (apply_filter_unknown name _ _ H1 H2). reflexivity.
  Qed.
End Chains.

(* ---------- the expression parser ---------- *)
Section FilterParse.
  Variable cfg : pcfg.

  Lemma parse_filter_S_cons : forall f t r,
    parse_filter cfg (S f) (t :: r) =
    if is_typ t TIdentifier then
      if str_in (tval t) (cfg_filters cfg) then
        match r with
        | c :: r1 =>
            if is_sym c y_colon then
              match r1 with
              | p :: _ => if is_sym p y_var_close then Err 2
                          else do '(pe, r2) <- parse_var_or_lit cfg f r1; Ok (FCall (tval t) (Some pe), r2)
              | [] => do '(pe, r2) <- parse_var_or_lit cfg f r1; Ok (FCall (tval t) (Some pe), r2)
              end
            else Ok (FCall (tval t) None, r)
        | [] => Ok (FCall (tval t) None, r)
        end
      else Err 2
    else Err 2.
  Proof. reflexivity. Qed.

  Lemma filter_loop_S_cons : forall f t r,
    filter_loop cfg (S f) (t :: r) =
    if is_sym t y_pipe then
      do '(fc, r1) <- parse_filter cfg f r;
      match fc with
      | FCall name _ =>
          if str_in name (cfg_banned_filters cfg) then Err 2
          else do '(rest, r2) <- filter_loop cfg f r1; Ok (fc :: rest, r2)
      end
    else Ok ([], t :: r).
  Proof. reflexivity. Qed.

  Lemma parse_filtered_S : forall f ts,
    parse_filtered cfg (S f) ts =
    (do '(e, r) <- parse_var_or_lit cfg f ts;
     do '(chain, r') <- filter_loop cfg f r;
     Ok (EFilt e chain, r')).
  Proof. reflexivity. Qed.

  (* a filter name that is not in the set's list is a parse error ... *)
  Lemma unknown_filter_rejected : forall f t r,
    str_in (tval t) (cfg_filters cfg) = false ->
    parse_filter cfg (S f) (t :: r) = Err 2.
  Proof.
    intros f t r H. rewrite parse_filter_S_cons, H.
    destruct (is_typ t TIdentifier); reflexivity.
  Qed.

  (* ... for the whole "| name" step, and for the filtered variable or literal around it *)
  Lemma unknown_filter_rejected_loop : forall f pipe t r,
    is_sym pipe y_pipe = true ->
    str_in (tval t) (cfg_filters cfg) = false ->
    filter_loop cfg (S (S f)) (pipe :: t :: r) = Err 2.
  Proof.
    intros f pipe t r Hp H. rewrite filter_loop_S_cons, Hp, (unknown_filter_rejected f t r H).
    reflexivity.
  Qed.

  Lemma unknown_filter_rejected_filtered : forall f ts e pipe t r,
    parse_var_or_lit cfg (S (S f)) ts = Ok (e, pipe :: t :: r) ->
    is_sym pipe y_pipe = true ->
    str_in (tval t) (cfg_filters cfg) = false ->
    parse_filtered cfg (S (S (S f))) ts = Err 2.
  Proof.
    intros f ts e pipe t r Hv Hp H. rewrite parse_filtered_S, Hv. cbn [bind].
    rewrite (unknown_filter_rejected_loop f pipe t r Hp H). reflexivity.
  Qed.
End FilterParse.

(* ---------- the tag dispatcher ---------- *)
Lemma unknown_tag_rejected : forall se f level st nm rest,
  str_in (tval (a_tok nm)) (cfg_tags (se_cfg se)) = false ->
  parse_tag se (S f) level st (nm :: rest) = Err 2.
Proof.
  intros se f level st nm rest H. rewrite parse_tag_S_cons. cbv zeta. rewrite H.
  destruct (a_is_ident nm); reflexivity.
Qed.

(* ---------- name tables ---------- *)
Lemma str_mem_In : forall s l, str_mem s l = false -> ~ In s l.
Proof.
  induction l as [|x l IH]; intros H Hin; [exact Hin|].
  cbn [str_mem] in H. apply orb_false_iff in H. destruct H as [H1 H2].
  destruct Hin as [Hx|Hin]; [subst x; rewrite str_eqb_refl in H1; discriminate|].
  exact (IH H2 Hin).
Qed.

Lemma names_distinct_NoDup : forall l, names_distinct l = true -> NoDup l.
Proof.
  induction l as [|x l IH]; intros H; [constructor|].
  cbn [names_distinct] in H. apply andb_true_iff in H. destruct H as [H1 H2].
  constructor; [apply str_mem_In; destruct (str_mem x l); [discriminate|reflexivity]|exact (IH H2)].
Qed.

Lemma str_in_In : forall s l, str_in s l = true <-> In s l.
Proof.
  intros s l. unfold str_in. rewrite existsb_exists. split.
  - intros [x [Hin Hx]]. apply str_eqb_true in Hx. subst x. exact Hin.
  - intros Hin. exists s. split; [exact Hin|apply str_eqb_refl].
Qed.

(* the lists a world configures: the package's registrations plus the harness's *)
Lemma world_filter_unknown : forall (w : world) (name : str),
  str_in name registered_filters = false -> str_in name (w_extra_filters w) = false ->
  str_in name (cfg_filters (se_cfg (world_senv w))) = false.
Proof.
  intros w name H1 H2. unfold world_senv, str_in in *. cbn [se_cfg cfg_filters].
  rewrite existsb_app, H1, H2. reflexivity.
Qed.

Lemma world_tag_unknown : forall (w : world) (name : str),
  str_in name registered_tags = false -> str_in name (w_extra_tags w) = false ->
  str_in name (cfg_tags (se_cfg (world_senv w))) = false.
Proof.
  intros w name H1 H2. unfold world_senv, str_in in *. cbn [se_cfg cfg_tags].
  rewrite existsb_app, H1, H2. reflexivity.
Qed.
