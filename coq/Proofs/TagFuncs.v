(* Lemmas and the proof scripts for the tie of the translated Execute methods of the branching tags
   (gen/TagFuncs.v, interpreted by Spec/SpecTagFuncs.v) to the hand-written executor of
   Model/Exec.v (exec_node on NIf, NFirstof, NIfequal).

   - unfolding equations of the interpretation (call levels, statement lists, the range loop);
   - [if_turn], [firstof_turn]: what ONE turn of the loop of the if tag / the firstof tag does, said
     with the model's primitives and a continuation for "go on with the next turn";
   - [exprs_loop_if], [exprs_loop_firstof]: a range loop every turn of which is such a turn, followed
     by "return nil", is the model's exec_if / exec_firstof - for every list, index, state, fuel;
   - the scripts Tie/C09w.v runs on every regenerated term: evaluate the interpretation (the
     model's primitives stay folded), split on the outcome of a primitive, compare. *)
From PV Require Import Model.Exec Lib.GoStmt Spec.SpecTagFuncs Proofs.Flow.
From Coq Require Import String Lia.
Open Scope string_scope.

(* ---------- small facts ---------- *)
Lemma out_app_nil : forall o, out_app o [] = o.
Proof. intros o. unfold out_app. apply app_nil_r. Qed.

Lemma to_string_str : forall s, to_string (VStr s) = Some s.
Proof. reflexivity. Qed.

Section Unfold.
  Variable se : senv.
  Variable globals : list (str * cval).

  Lemma exec_node_0 : forall st n, exec_node se globals 0 st n = ([], Fuel).
  Proof. reflexivity. Qed.
  Lemma exec_if_0 : forall st conds ws i, exec_if se globals 0 st conds ws i = ([], Fuel).
  Proof. reflexivity. Qed.
  Lemma exec_firstof_0 : forall st args, exec_firstof se globals 0 st args = ([], Fuel).
  Proof. reflexivity. Qed.

  Variable callr : tval -> string -> list tval -> tworld -> tkont -> tans.

  (* the statements of a block, as tf_exec runs them (its local fixpoint) *)
  Definition texec_block (kr : tkont) : list gstmt -> tenv -> tworld -> tnkont -> tans :=
    fix exl (l : list gstmt) (env : tenv) (w : tworld) (kn' : tnkont) {struct l} : tans :=
      match l with
      | [] => kn' env w
      | s1 :: r => tf_exec se callr s1 env w (fun env1 w1 => exl r env1 w1 kn') kr
      end.

  Lemma tf_exec_list_nil : forall env w kn kr,
    tf_exec_list se callr [] env w kn kr = kn env w.
  Proof. reflexivity. Qed.

  Lemma tf_exec_list_cons : forall s r env w kn kr,
    tf_exec_list se callr (s :: r) env w kn kr =
    tf_exec se callr s env w (fun env1 w1 => tf_exec_list se callr r env1 w1 kn kr) kr.
  Proof. reflexivity. Qed.

  Lemma tf_exec_range : forall key val coll body env w kn kr,
    tf_exec se callr (GSRange key val coll body) env w kn kr =
    tf_eval se callr coll env w (tone (fun v w1 =>
      match v with
      | TVExprs es => exprs_loop (fun env' w' kn' => texec_block kr body env' w' kn') key val es 0 env w1 kn
      | _ => TStuck "range over a value that is not a slice of expressions"
      end)).
  Proof. reflexivity. Qed.
End Unfold.

Lemma exprs_loop_fuel0 : forall bodyf key val es i env o st kn,
  exprs_loop bodyf key val es i env (mkTW o st 0) kn = TStop SFuel (mkTW o st 0).
Proof. intros. destruct es; reflexivity. Qed.

Lemma exprs_loop_nil : forall bodyf key val i env o st f kn,
  exprs_loop bodyf key val [] i env (mkTW o st (S f)) kn = kn env (mkTW o st f).
Proof. reflexivity. Qed.

Lemma exprs_loop_cons : forall bodyf key val e r i env o st f kn,
  exprs_loop bodyf key val (e :: r) i env (mkTW o st (S f)) kn =
  match tall_lhs tenv_define [key; val] [TVInt i; TVExpr e] ([] :: env) with
  | Some env1 =>
      bodyf ([] :: env1) (mkTW o st f) (fun env2 w2 => exprs_loop bodyf key val r (S i) (tl (tl env2)) w2 kn)
  | None => TStuck "range variables"
  end.
Proof. reflexivity. Qed.

Lemma tf_call_step_eq : forall se globals prog deeper recv m args w k,
  tf_call_step se globals prog deeper recv m args w k =
  match match ttype_of recv with Some ty => tfind_method ty m prog | None => None end with
  | Some fn => tf_call_func se deeper fn recv args w k
  | None => tbuiltin se globals recv m args w k
  end.
Proof. reflexivity. Qed.

(* two call levels: the tag's Execute, and the primitives it calls; what lies deeper is [tf_call ... d] *)
Lemma tag_execute_S2 : forall se globals prog d node o0 st fuel,
  tag_execute se globals prog (S (S d)) node o0 st fuel =
  tf_call_step se globals prog (tf_call_step se globals prog (tf_call se globals prog d))
    node "Execute" [TVCtx; TVWriter] (mkTW o0 st fuel) (fun vs w' => TOk (vs, w')).
Proof. reflexivity. Qed.

(* ---------- one turn of the loops, said with the model's primitives ---------- *)
Section Turns.
  Variable se : senv.
  Variable globals : list (str * cval).

  (* wrapper.Execute(ctx, writer) for the wrapper an index gave - or the index was out of range *)
  Definition run_wrapper (ow : option (list node)) (o : str) (st : mstate) (f : nat) : tans :=
    match ow with
    | Some ns =>
        let '(o1, r) := exec_nodes se globals f st ns in
        match r with
        | Ok st1 => TOk ([TVNil], mkTW (out_app o o1) st1 f)
        | Err kind => TOk ([TVErr kind], mkTW (out_app o o1) st f)
        | other => TStop (stop_of other) (mkTW (out_app o o1) st f)
        end
    | None => TPanic "index out of range" (mkTW o st f)
    end.

  (* the if tag: condition number i, c, in the world (o, st, f) *)
  Definition if_turn (conds : list expr) (ws : list (list node)) (i : nat) (c : expr)
                     (o : str) (st : mstate) (f : nat) (next : tworld -> tans) : tans :=
    match PV.Model.Exec.eval se globals f st c with
    | Ok (v, st1) =>
        if is_true (vv v) then run_wrapper (seq_index ws i) o st1 f
        else if (int_eq (seq_len conds) (int_add i 1) && int_gt (seq_len ws) (int_add i 1))%bool
             then run_wrapper (seq_index ws (int_add i 1)) o st1 f
             else next (mkTW o st1 f)
    | Err kind => TOk ([TVErr kind], mkTW o st f)
    | other => TStop (stop_of other) (mkTW o st f)
    end.

  (* the firstof tag: the argument a, in the world (o, st, f) *)
  Definition firstof_turn (a : expr) (o : str) (st : mstate) (f : nat) (next : tworld -> tans) : tans :=
    match PV.Model.Exec.eval se globals f st a with
    | Ok (v, st1) =>
        if is_true (vv v) then
          match top_frame st1 with
          | Ok fr =>
              match to_string (vv v) with
              | None => TStop SUnmod (mkTW o st1 f)
              | Some s =>
                  TOk ([TVNil], mkTW (out_app o (if (f_auto fr && negb (filter_applied [115; 97; 102; 101] (* safe *) a))%bool
                                                 then filter_escape s else s)) st1 f)
              end
          | other => TStop (stop_of other) (mkTW o st1 f)
          end
        else next (mkTW o st1 f)
    | Err kind => TOk ([TVErr kind], mkTW o st f)
    | other => TStop (stop_of other) (mkTW o st f)
    end.

  Lemma read_run_wrapper_some : forall site ns o st f,
    read_exec site (run_wrapper (Some ns) o st f) = Some (after o (exec_nodes se globals f st ns)).
  Proof.
    intros site ns o st f. unfold run_wrapper, after.
    destruct (exec_nodes se globals f st ns) as [o1 [st1|k| | |s]]; reflexivity.
  Qed.

  (* ---------- the loop of the if tag ---------- *)
  (* A loop  for key, val := range (the conditions from number i on)  every turn of which - with the
     condition c at number i, from any world - is [if_turn], going on with the variables of the
     function as they were ([next] stands for a continuation that drops the two scopes of the turn);
     and what follows the loop returns nil: the loop is the model's exec_if.
     A run-time panic of the index is read as the model's Panic 97. *)
  Lemma exprs_loop_if : forall bodyf key val env kn conds ws,
    (forall i c o st f kn' next, (forall s1 s2 w, kn' (s1 :: s2 :: env) w = next w) ->
       match tall_lhs tenv_define [key; val] [TVInt i; TVExpr c] ([] :: env) with
       | Some env1 => bodyf ([] :: env1) (mkTW o st f) kn'
       | None => TStuck "range variables"
       end = if_turn conds ws i c o st f next) ->
    (forall w, kn env w = TOk ([TVNil], w)) ->
    forall r i o st f, skipn i conds = r ->
    read_exec 97 (exprs_loop bodyf key val r i env (mkTW o st f) kn) =
    Some (after o (exec_if se globals f st conds ws i)).
  Proof.
    intros bodyf key val env kn conds ws Hturn Hkn.
    induction r as [|c r IH]; intros i o st f Hsk.
    - destruct f as [|f].
      + rewrite exprs_loop_fuel0, exec_if_0. unfold after. cbn [read_exec fst snd tw_out res_of_stop].
        rewrite out_app_nil. reflexivity.
      + rewrite exprs_loop_nil, Hkn, exec_if_S, (skipn_nil_inv _ _ Hsk).
        unfold after, xok. cbn [read_exec fst snd tw_out tw_st]. rewrite out_app_nil. reflexivity.
    - destruct f as [|f].
      + rewrite exprs_loop_fuel0, exec_if_0. unfold after. cbn [read_exec fst snd tw_out res_of_stop].
        rewrite out_app_nil. reflexivity.
      + destruct (skipn_cons_inv _ _ _ _ Hsk) as (Hnth & Hsk' & _).
        rewrite exprs_loop_cons.
        match goal with |- context [bodyf _ _ ?K] =>
          pose proof (Hturn i c o st f K (fun w' => exprs_loop bodyf key val r (S i) env w' kn)
                            (fun s1 s2 w => eq_refl)) as Heq end.
        match type of Heq with _ = ?R => transitivity (read_exec 97 R); [apply (f_equal (read_exec 97)); exact Heq|] end.
        clear Heq. rewrite exec_if_S, Hnth. unfold if_turn.
        unfold int_eq, int_gt, int_add, seq_len, seq_index. rewrite Nat.add_1_r.
        destruct (PV.Model.Exec.eval se globals f st c) as [[v st1]|k| | |s];
          try (unfold after, xfail; cbn [read_exec fst snd tw_out res_of_stop stop_of];
               rewrite out_app_nil; reflexivity).
        destruct (is_true (vv v)).
        * destruct (nth_error ws i) as [wn|].
          -- apply read_run_wrapper_some.
          -- unfold after. cbn [run_wrapper read_exec fst snd tw_out]. rewrite out_app_nil. reflexivity.
        * destruct (Nat.eqb (List.length conds) (S i) && Nat.ltb (S i) (List.length ws))%bool eqn:Hlast.
          -- destruct (nth_error ws (S i)) as [wn|] eqn:Hw.
             ++ apply read_run_wrapper_some.
             ++ exfalso. apply Bool.andb_true_iff in Hlast. destruct Hlast as [_ Hlt].
                apply Nat.ltb_lt in Hlt. apply nth_error_None in Hw. lia.
          -- cbv beta. apply IH. exact Hsk'.
  Qed.

  (* ---------- the loop of the firstof tag ---------- *)
  Lemma exprs_loop_firstof : forall site bodyf key val env kn,
    (forall i a o st f kn' next, (forall s1 s2 w, kn' (s1 :: s2 :: env) w = next w) ->
       match tall_lhs tenv_define [key; val] [TVInt i; TVExpr a] ([] :: env) with
       | Some env1 => bodyf ([] :: env1) (mkTW o st f) kn'
       | None => TStuck "range variables"
       end = firstof_turn a o st f next) ->
    (forall w, kn env w = TOk ([TVNil], w)) ->
    forall r i o st f,
    read_exec site (exprs_loop bodyf key val r i env (mkTW o st f) kn) =
    Some (after o (exec_firstof se globals f st r)).
  Proof.
    intros site bodyf key val env kn Hturn Hkn.
    induction r as [|a r IH]; intros i o st f.
    - destruct f as [|f].
      + rewrite exprs_loop_fuel0, exec_firstof_0. unfold after. cbn [read_exec fst snd tw_out res_of_stop].
        rewrite out_app_nil. reflexivity.
      + rewrite exprs_loop_nil, Hkn, exec_firstof_S_nil.
        unfold after, xok. cbn [read_exec fst snd tw_out tw_st]. rewrite out_app_nil. reflexivity.
    - destruct f as [|f].
      + rewrite exprs_loop_fuel0, exec_firstof_0. unfold after. cbn [read_exec fst snd tw_out res_of_stop].
        rewrite out_app_nil. reflexivity.
      + rewrite exprs_loop_cons.
        match goal with |- context [bodyf _ _ ?K] =>
          pose proof (Hturn i a o st f K (fun w' => exprs_loop bodyf key val r (S i) env w' kn)
                            (fun s1 s2 w => eq_refl)) as Heq end.
        match type of Heq with _ = ?R => transitivity (read_exec site R); [apply (f_equal (read_exec site)); exact Heq|] end.
        clear Heq. rewrite exec_firstof_S_cons. unfold firstof_turn.
        destruct (PV.Model.Exec.eval se globals f st a) as [[v st1]|k| | |s];
          try (unfold after, xfail; cbn [read_exec fst snd tw_out res_of_stop stop_of];
               rewrite out_app_nil; reflexivity).
        destruct (is_true (vv v)).
        * unfold top_frame. destruct (ms_frames st1) as [|fr frs];
            [unfold after, xfail; cbn [read_exec fst snd tw_out res_of_stop stop_of];
             rewrite out_app_nil; reflexivity|].
          destruct (to_string (vv v)) as [s|].
          -- destruct (f_auto fr && negb (filter_applied [115; 97; 102; 101] a))%bool; reflexivity.
          -- unfold after. cbn [read_exec fst snd tw_out res_of_stop]. rewrite out_app_nil. reflexivity.
        * cbv beta. apply IH.
  Qed.
End Turns.

(* ---------- the scripts ---------- *)
(* evaluate the interpretation; the model's primitives, the integers and slices, what the writer
   holds, and the loop stay folded *)
Ltac tag_eval :=
  lazy - [PV.Model.Exec.eval exec_nodes exec_node exec_if exec_firstof is_true to_string equal_value_to
          filter_applied filter_escape f_auto ms_frames
          int_add int_gt int_eq seq_len seq_index out_app exprs_loop].
(* evaluate up to the next statement of the function's body; statement lists and blocks stay folded *)
Ltac tag_eval_stmt :=
  lazy - [PV.Model.Exec.eval exec_nodes exec_node exec_if exec_firstof is_true to_string equal_value_to
          filter_applied filter_escape f_auto ms_frames
          int_add int_gt int_eq seq_len seq_index out_app exprs_loop
          tf_exec_list texec_block tf_call_step].
(* one case split on a folded primitive (in the order a run meets them) *)
Ltac tag_split :=
  match goal with
  | |- context [PV.Model.Exec.eval ?a ?b ?c ?d ?e] =>
      destruct (PV.Model.Exec.eval a b c d e) as [[?v ?st1]|?k| | |?site]
  | |- context [is_true ?x] => destruct (is_true x)
  | |- context [int_eq ?a ?b] => destruct (int_eq a b)
  | |- context [int_gt ?a ?b] => destruct (int_gt a b)
  | |- context [seq_index ?l ?i] => destruct (seq_index l i) as [?wn|]
  | |- context [ms_frames ?s] => destruct (ms_frames s) as [|?fr ?frs]
  | |- context [f_auto ?fr] => destruct (f_auto fr)
  | |- context [filter_applied ?n ?e] => destruct (filter_applied n e)
  | |- context [to_string (VStr ?x)] => change (to_string (VStr x)) with (Some x)
  | |- context [to_string ?x] => destruct (to_string x) as [?s|]
  | |- context [equal_value_to ?x ?y] => destruct (equal_value_to x y) as [[|]|]
  | |- context [exec_nodes ?a ?b ?c ?d ?e] =>
      destruct (exec_nodes a b c d e) as [?o [?st1|?k| | |?site]]
  end.
(* every split removes one primitive from the path; no primitive left and not equal: fail *)
Ltac tag_crunch :=
  tag_eval; rewrite ?out_app_nil;
  first [ reflexivity
        | match goal with H : forall s1 s2 w, _ = _ |- _ => apply H end
        | tag_split; tag_crunch
        | fail 1 "this run of the translated Go code differs from the model's executor (Model/Exec.v)" ].
(* the depth hypothesis 2 <= d: peel two levels, forget what lies deeper *)
Ltac peel_two d H :=
  do 2 (destruct d as [|d]; [exfalso; lia|]); clear H; rewrite tag_execute_S2;
  match goal with |- context [tf_call ?s ?g ?p d] => generalize (tf_call s g p d); intro end.
(* run the next statement *)
Ltac tag_step := rewrite tf_exec_list_cons; tag_eval_stmt.
(* enter the call of the translated method: bind receiver and parameters *)
Ltac tag_enter := rewrite tf_call_step_eq; tag_eval_stmt.
