(* Lemmas for property C18, second part: join, split, first/last on strings, add, default,
   default_if_none, yesno, pluralize, wordcount, cut, capfirst/upper/lower, make_list,
   length_is, get_digit, truncatechars, truncatewords, linenumbers, wordwrap against the
   reference definitions of Spec/SpecFilters2.v.
   As in Proofs/FilterProofs.v the branch bodies of [apply_filter] are restated as small
   definitions ([join_body], ...); that [apply_filter <name>] reaches the body is proved in
   Tie/C18b.v through the generated table [filter_impl]. *)
From PV Require Import Model.Filters Spec.SpecFilters Spec.SpecFilters2 Proofs.FilterProofs.
From Coq Require Import Lia Arith.
From Coq Require Import ZifyN ZifyNat ZifyBool.
Open Scope N_scope.
Ltac Zify.zify_post_hook ::= Z.div_mod_to_equations.

(* ------------------------------------------------------------------ *)
(* The branch bodies (copies of the branches of Model/Filters.v)       *)

Definition join_body (x p : value) : fres :=
  if negb (can_slice (vv x)) then Ok x
  else
    do sep <- str_of p;
    match sep with
    | [] =>
        match vv x with
        | VStr s => okv (VStr s)
        | _ => do parts <- list_strings (vv x); okv (VStr (join_go [] parts))
        end
    | _ => do parts <- list_strings (vv x); okv (VStr (join_go sep parts))
    end.

Definition split_body (x p : value) : fres :=
  do s <- str_of x; do sep <- str_of p; okv (VList (map VStr (split_any s sep))).

Definition add_body (x p : value) : fres :=
  if is_number (vv x) && is_number (vv p) then
    if is_float (vv x) || is_float (vv p) then
      do a <- float_of x; do b <- float_of p; okv (VFloat (f_add a b))
    else do a <- int_of x; do b <- int_of p; okv (VInt (wrap64 (a + b)))
  else do a <- str_of x; do b <- str_of p; okv (VStr (a ++ b)).

Definition default_body (x p : value) : fres := if is_true (vv x) then Ok x else Ok p.
Definition default_if_none_body (x p : value) : fres := if is_nil (vv x) then Ok p else Ok x.

Definition yesno_body (x p : value) : fres :=
  do ps <- str_of p;
  let custom := split_go [44] 0 [] ps in
  let n := length custom in
  let dflt := ([121; 101; 115], [110; 111], [109; 97; 121; 98; 101]) in
  do '(cy, cn, cm) <-
    (match ps with
     | [] => Ok dflt
     | _ => if Nat.ltb 3 n then Err 5 else if Nat.ltb n 2 then Err 5
            else Ok (nth 0 custom [], nth 1 custom [],
                     if Nat.eqb n 3 then nth 2 custom [] else [109; 97; 121; 98; 101])
     end);
  if is_nil (vv x) then okv (VStr cm)
  else if is_true (vv x) then okv (VStr cy) else okv (VStr cn).

Definition pluralize_body (x p : value) : fres :=
  if is_number (vv x) then
    do n <- int_of x;
    if (0 <? val_len (vv p))%Z then
      do ps <- str_of p;
      let endings := split_go [44] 0 [] ps in
      match endings with
      | [e1] => if (n =? 1)%Z then okv (VStr []) else okv (VStr e1)
      | [e1; e2] => if (n =? 1)%Z then okv (VStr e1) else okv (VStr e2)
      | _ => ferr
      end
    else if (n =? 1)%Z then okv (VStr []) else okv (VStr [115])
  else ferr.

Definition wordcount_body (x : value) : fres :=
  do s <- str_of x; okv (VInt (Z.of_nat (length (fields s)))).

Definition cut_body (x p : value) : fres :=
  do s <- str_of x; do o <- str_of p; okv (VStr (cut_str s o)).

Definition capfirst_body (x : value) : fres :=
  if (val_len (vv x) <=? 0)%Z then okv (VStr [])
  else
    do t <- str_of x;
    match t with
    | b :: rest => if b <? 128 then okv (VStr (upper_b b :: rest)) else Unmod
    | [] => okv (VStr [])
    end.

Definition upper_body (x : value) : fres :=
  do s <- str_of x; do r <- of_opt (to_upper s); okv (VStr r).
Definition lower_body (x : value) : fres :=
  do s <- str_of x; do r <- of_opt (to_lower s); okv (VStr r).

Definition make_list_body (x : value) : fres :=
  do s <- str_of x; okv (VList (map (fun r => VStr (encode_rune r)) (runes s))).

Definition length_is_body (x p : value) : fres :=
  do n <- int_of p; okv (VBool (val_len (vv x) =? n)%Z).

Definition get_digit_body (x p : value) : fres :=
  do i <- int_of p;
  do s <- str_of x;
  let l := Z.of_nat (length s) in
  if (i <=? 0)%Z || (l <? i)%Z then Ok x
  else
    let c := nth (Z.to_nat (l - i)) s 0%N in
    if (c <? 48)%N || (57 <? c)%N then Ok x
    else okv (VInt (Z.of_N (c - 48)%N)).

Definition truncatewords_body (x p : value) : fres :=
  do s <- str_of x; do n <- int_of p;
  let words := fields s in
  if (n <=? 0)%Z then okv (VStr [])
  else
    let nlen := Z.min (Z.of_nat (length words)) n in
    let out := firstn (Z.to_nat nlen) words in
    let out' := if (n <? Z.of_nat (length words))%Z then out ++ [ellipsis] else out in
    okv (VStr (join_go [32] out')).

Definition linenumbers_body (x : value) : fres :=
  do s <- str_of x; okv (VStr (join_go [10] (linenumbers_go 1 (split_go [10] 0 [] s)))).

Definition wordwrap_body (x p : value) : fres :=
  do s <- str_of x; do w <- int_of p;
  if (w <=? 0)%Z then Ok x
  else
    let words := fields s in
    let n := Z.to_nat (Z.min w (Z.of_nat (length words) + 1)) in
    okv (VStr (join_go [10] (map (join_go [32]) (chunks (length words) n words)))).

(* ------------------------------------------------------------------ *)
(* Small facts                                                         *)

Lemma bind_ok : forall {A B} (a : A) (f : A -> res B), bind (Ok a) f = f a.
Proof. reflexivity. Qed.

Lemma str_of_some : forall x s, to_string (vv x) = Some s -> str_of x = Ok s.
Proof. intros x s H. unfold str_of. rewrite H. reflexivity. Qed.

Lemma is_prefix_iff : forall p s, is_prefix p s = true <-> starts_with p s.
Proof.
  unfold starts_with. induction p as [|a p IH]; intros s.
  - split; [intros _; exists s; reflexivity | reflexivity].
  - destruct s as [|b s]; cbn [is_prefix].
    + split; [discriminate | intros [t Ht]; discriminate].
    + rewrite Bool.andb_true_iff, N.eqb_eq, IH. split.
      * intros [Hab [t Ht]]. exists t. subst. reflexivity.
      * intros [t Ht]. injection Ht as Hb Hs. split; [congruence | exists t; exact Hs].
Qed.

Lemma is_prefix_self : forall p r, is_prefix p (p ++ r) = true.
Proof. intros p r. apply is_prefix_iff. exists r. reflexivity. Qed.

(* ------------------------------------------------------------------ *)
(* join and split                                                      *)

Lemma py_join_cons : forall sep x l,
  py_join sep (x :: l) = x ++ match l with [] => [] | _ => sep ++ py_join sep l end.
Proof.
  intros sep x [|y l]; cbn [py_join flat_map]; [reflexivity|].
  rewrite <- app_assoc. reflexivity.
Qed.

Lemma join_go_is_py_join : forall sep l, join_go sep l = py_join sep l.
Proof.
  intros sep l. induction l as [|x l IH]; [reflexivity|].
  rewrite py_join_cons. destruct l as [|y l].
  - cbn [join_go]. rewrite app_nil_r. reflexivity.
  - change (join_go sep (x :: y :: l)) with (x ++ sep ++ join_go sep (y :: l)).
    rewrite IH. reflexivity.
Qed.

(* skipping: the bytes of a match that were already consumed *)
Lemma split_go_skip : forall sep t cur s,
  split_go sep (length t) cur (t ++ s) = split_go sep 0 cur s.
Proof. intros sep t. induction t as [|c t IH]; intros cur s; [reflexivity|]. cbn [length app split_go]. apply IH. Qed.

Lemma split_go_hit : forall sep cur rest, sep <> [] ->
  split_go sep 0 cur (sep ++ rest) = rev cur :: split_go sep 0 [] rest.
Proof.
  intros sep cur rest Hne. destruct sep as [|c sep']; [contradiction|].
  change ((c :: sep') ++ rest) with (c :: (sep' ++ rest)).
  cbn [split_go]. change (c :: sep' ++ rest) with ((c :: sep') ++ rest).
  rewrite is_prefix_self. replace (length (c :: sep') - 1)%nat with (length sep') by (cbn [length]; lia).
  rewrite split_go_skip. reflexivity.
Qed.

Lemma split_go_miss : forall sep cur c s, is_prefix sep (c :: s) = false ->
  split_go sep 0 cur (c :: s) = split_go sep 0 (c :: cur) s.
Proof. intros sep cur c s H. cbn [split_go]. rewrite H. reflexivity. Qed.

(* split then join gives the text back (any non-empty separator, any text) *)
Lemma join_split_go : forall sep, sep <> [] -> forall n s cur, (length s <= n)%nat ->
  py_join sep (split_go sep 0 cur s) = rev cur ++ s.
Proof.
  intros sep Hne n. induction n as [|n IH]; intros s cur Hn.
  - destruct s; [|cbn [length] in Hn; lia]. cbn [split_go py_join flat_map]. rewrite app_nil_r. reflexivity.
  - destruct s as [|c s]; [cbn [split_go py_join flat_map]; rewrite app_nil_r; reflexivity|].
    destruct (is_prefix sep (c :: s)) eqn:E.
    + apply is_prefix_iff in E. destruct E as [rest Hrest]. rewrite Hrest.
      rewrite split_go_hit by exact Hne. rewrite py_join_cons.
      assert (Hlen : (length rest <= n)%nat).
      { apply (f_equal (@length N)) in Hrest. rewrite app_length in Hrest. cbn [length] in Hrest.
        destruct sep; [contradiction|cbn [length] in Hrest, Hn; lia]. }
      pose proof (IH rest [] Hlen) as Hr. cbn [rev app] in Hr.
      destruct (split_go sep 0 [] rest) as [|y l] eqn:El.
      * destruct rest; cbn [split_go] in El; [discriminate|].
        destruct (is_prefix sep (n0 :: rest)); discriminate.
      * rewrite Hr. reflexivity.
    + rewrite split_go_miss by exact E. rewrite IH by (cbn [length] in Hn; lia).
      cbn [rev]. rewrite <- app_assoc. reflexivity.
Qed.

Lemma join_split : forall sep s, sep <> [] -> py_join sep (split_go sep 0 [] s) = s.
Proof. intros sep s Hne. exact (join_split_go sep Hne (length s) s [] (le_n _)). Qed.

(* the pieces are Python's: cut at the first occurrence, again and again *)
Lemma split_go_rel : forall sep, sep <> [] -> forall n s cur, (length s <= n)%nat ->
  (forall a b, rev cur ++ s = a ++ sep ++ b -> (length (rev cur) <= length a)%nat) ->
  split_rel sep (rev cur ++ s) (split_go sep 0 cur s).
Proof.
  intros sep Hne n. induction n as [|n IH]; intros s cur Hn Hcur.
  - destruct s; [|cbn [length] in Hn; lia]. cbn [split_go]. rewrite app_nil_r in *. apply split_last.
    intros [a [b H]]. pose proof (Hcur a b H) as Hle.
    apply (f_equal (@length N)) in H. rewrite !app_length in H.
    destruct sep; [contradiction|cbn [length] in H; lia].
  - destruct s as [|c s].
    { cbn [split_go]. rewrite app_nil_r in *. apply split_last.
      intros [a [b H]]. pose proof (Hcur a b H) as Hle.
      apply (f_equal (@length N)) in H. rewrite !app_length in H.
      destruct sep; [contradiction|cbn [length] in H; lia]. }
    destruct (is_prefix sep (c :: s)) eqn:E.
    + apply is_prefix_iff in E. destruct E as [rest Hrest].
      assert (Hlen : (length rest <= n)%nat).
      { apply (f_equal (@length N)) in Hrest. rewrite app_length in Hrest. cbn [length] in Hrest.
        destruct sep; [contradiction|cbn [length] in Hrest, Hn; lia]. }
      rewrite Hrest in *.
      rewrite split_go_hit by exact Hne. apply split_more.
      * intros a b H.
        assert (H2 : rev cur ++ sep ++ rest = a ++ sep ++ (b ++ rest)).
        { rewrite (app_assoc (rev cur)), H. rewrite <- !app_assoc. reflexivity. }
        apply Hcur in H2. apply (f_equal (@length N)) in H. rewrite !app_length in H.
        destruct b; [reflexivity|cbn [length] in H; lia].
      * apply (IH rest [] Hlen). intros a b _. cbn [rev length]. lia.
    + rewrite split_go_miss by exact E.
      replace (rev cur ++ c :: s) with (rev (c :: cur) ++ s) by (cbn [rev]; rewrite <- app_assoc; reflexivity).
      apply IH; [cbn [length] in Hn; lia|].
      cbn [rev]. intros a b H. rewrite <- app_assoc in H. cbn [app] in H.
      pose proof (Hcur a b H) as Hle. rewrite app_length. cbn [length].
      destruct (Nat.eq_dec (length a) (length (rev cur))) as [Heq|Hneq]; [|lia].
      exfalso.
      assert (Hsplit : a = rev cur /\ sep ++ b = c :: s).
      { clear -H Heq. revert a H Heq. generalize (rev cur). intro l.
        induction l as [|y l IHl]; intros [|a0 a] H Heq; cbn [length] in Heq; try lia.
        - cbn [app] in H. split; [reflexivity|]. symmetry; exact H.
        - cbn [app] in H. injection H as Hy H. destruct (IHl a H) as [H1 H2]; [lia|].
          subst. split; [reflexivity|exact H2]. }
      destruct Hsplit as [_ Hs].
      assert (Ht : is_prefix sep (c :: s) = true) by (apply is_prefix_iff; exists b; symmetry; exact Hs).
      rewrite Ht in E. discriminate.
Qed.

Lemma split_is_python : forall sep s, sep <> [] -> split_rel sep s (split_go sep 0 [] s).
Proof.
  intros sep s Hne. apply (split_go_rel sep Hne (length s) s [] (le_n _)).
  intros a b _. cbn [rev length]. lia.
Qed.

(* [split_rel] determines the pieces *)
Lemma split_rel_fun : forall sep, sep <> [] -> forall s l1, split_rel sep s l1 ->
  forall l2, split_rel sep s l2 -> l1 = l2.
Proof.
  intros sep Hne s l1 H1. induction H1 as [s Hno|piece rest parts Hfirst Hrel IH]; intros l2 H2.
  - inversion H2 as [s' Hno'|piece' rest' parts' Hfirst' Hrel' Heq]; subst; [reflexivity|].
    exfalso. apply Hno. exists piece', rest'. reflexivity.
  - remember (piece ++ sep ++ rest) as s eqn:Es.
    destruct H2 as [s Hno|piece' rest' parts' Hfirst' Hrel'].
    + exfalso. apply Hno. exists piece, rest. exact Es.
    + (* both cut at the first occurrence: the cuts coincide *)
      assert (Es' : (piece' ++ sep) ++ rest' = (piece ++ sep) ++ rest)
        by (rewrite <- !app_assoc; exact Es).
      apply app_eq_app in Es'. destruct Es' as [l [[Ha Hb]|[Ha Hb]]].
      * rewrite <- app_assoc in Ha. pose proof (Hfirst' _ _ Ha) as Hl. subst l.
        rewrite app_nil_r in Ha. apply app_inv_tail in Ha. cbn [app] in Hb. subst.
        f_equal. apply IH. exact Hrel'.
      * rewrite <- app_assoc in Ha. pose proof (Hfirst _ _ Ha) as Hl. subst l.
        rewrite app_nil_r in Ha. apply app_inv_tail in Ha. cbn [app] in Hb. subst.
        f_equal. apply IH. exact Hrel'.
Qed.

(* a one-byte separator: splitting a joined list of separator-free parts gives the parts *)
Lemma is_prefix1 : forall c d s, is_prefix [c] (d :: s) = (c =? d).
Proof. intros c d s. cbn [is_prefix]. apply Bool.andb_true_r. Qed.

Lemma split1_plain : forall c t cur, lacks c t -> split_go [c] 0 cur t = [rev cur ++ t].
Proof.
  intros c t. induction t as [|d t IH]; intros cur H.
  - cbn [split_go]. rewrite app_nil_r. reflexivity.
  - assert (Hd : c <> d) by (intro; apply H; left; congruence).
    assert (Ht : lacks c t) by (intro; apply H; right; assumption).
    rewrite split_go_miss by (rewrite is_prefix1; apply N.eqb_neq; exact Hd).
    rewrite (IH (d :: cur) Ht). cbn [rev]. rewrite <- app_assoc. reflexivity.
Qed.

Lemma split1_sep : forall c t cur rest, lacks c t ->
  split_go [c] 0 cur (t ++ c :: rest) = (rev cur ++ t) :: split_go [c] 0 [] rest.
Proof.
  intros c t. induction t as [|d t IH]; intros cur rest H.
  - change ([] ++ c :: rest) with ([c] ++ rest).
    rewrite (split_go_hit [c] cur rest) by discriminate. rewrite app_nil_r. reflexivity.
  - assert (Hd : c <> d) by (intro; apply H; left; congruence).
    assert (Ht : lacks c t) by (intro; apply H; right; assumption).
    cbn [app]. rewrite split_go_miss by (rewrite is_prefix1; apply N.eqb_neq; exact Hd).
    rewrite (IH (d :: cur) rest Ht). cbn [rev]. rewrite <- app_assoc. reflexivity.
Qed.

Lemma split1_join : forall c part parts, Forall (lacks c) (part :: parts) ->
  split_go [c] 0 [] (py_join [c] (part :: parts)) = part :: parts.
Proof.
  intros c part parts. revert part. induction parts as [|q parts IH]; intros part H.
  - cbn [py_join flat_map]. rewrite app_nil_r. rewrite split1_plain by (inversion H; assumption). reflexivity.
  - rewrite py_join_cons. cbn [app]. inversion H as [|? ? Hp Hrest]; subst.
    rewrite split1_sep by exact Hp. rewrite IH by exact Hrest. reflexivity.
Qed.

Lemma list_strings_rendered : forall l strs, rendered l strs -> list_strings (VList l) = Ok strs.
Proof.
  intros l strs H. cbn [list_strings]. induction H as [|v s l strs Hv Hl IH]; [reflexivity|].
  cbn [fold_right]. rewrite IH. cbn [bind]. rewrite Hv. reflexivity.
Qed.

(* join: the texts of the items with the separator between them; any separator, the empty
   one included (fix D46: then the result is the concatenation of the texts) *)
Lemma join_list : forall (x p : value) (l : list val) (strs : list str) (sep : str),
  vv x = VList l -> to_string (vv p) = Some sep -> rendered l strs ->
  join_body x p = Ok (as_value (VStr (py_join sep strs))).
Proof.
  intros x p l strs sep Hx Hp Hr. unfold join_body. rewrite Hx. cbn [can_slice negb].
  rewrite (str_of_some p sep Hp). cbn [bind]. destruct sep as [|c sep];
    rewrite (list_strings_rendered l strs Hr); cbn [bind]; rewrite join_go_is_py_join; reflexivity.
Qed.

(* with the empty separator the joined text is the concatenation of the items' texts *)
Lemma py_join_nil_concat : forall strs, py_join [] strs = concat strs.
Proof.
  induction strs as [|s strs IH]; [reflexivity|].
  rewrite py_join_cons. cbn [concat]. rewrite <- IH. destruct strs as [|t strs]; [|reflexivity].
  cbn [py_join]. reflexivity.
Qed.

Lemma join_list_nosep : forall (x p : value) (l : list val) (strs : list str),
  vv x = VList l -> to_string (vv p) = Some [] -> rendered l strs ->
  join_body x p = Ok (as_value (VStr (concat strs))).
Proof.
  intros x p l strs Hx Hp Hr. rewrite (join_list x p l strs [] Hx Hp Hr), py_join_nil_concat. reflexivity.
Qed.

(* ... on a string: its characters; with the empty separator the string itself *)
Lemma join_string : forall (x p : value) (s sep : str),
  vv x = VStr s -> to_string (vv p) = Some sep -> sep <> [] ->
  join_body x p = Ok (as_value (VStr (py_join sep (chars s)))).
Proof.
  intros x p s sep Hx Hp Hne. unfold join_body. rewrite Hx. cbn [can_slice negb].
  rewrite (str_of_some p sep Hp). cbn [bind]. destruct sep as [|c sep]; [contradiction|].
  cbn [list_strings bind]. rewrite join_go_is_py_join. reflexivity.
Qed.

Lemma join_string_nosep : forall (x p : value) (s : str),
  vv x = VStr s -> to_string (vv p) = Some [] -> join_body x p = Ok (as_value (VStr s)).
Proof.
  intros x p s Hx Hp. unfold join_body. rewrite Hx. cbn [can_slice negb].
  rewrite (str_of_some p [] Hp). cbn [bind]. reflexivity.
Qed.

(* ... anything that is neither a list nor a string is returned as it is *)
Lemma join_scalar : forall (x p : value), can_slice (vv x) = false -> join_body x p = Ok x.
Proof. intros x p H. unfold join_body. rewrite H. reflexivity. Qed.

(* split: Python's pieces; joining them again gives the text back *)
Lemma split_python : forall (x p : value) (s sep : str),
  to_string (vv x) = Some s -> to_string (vv p) = Some sep -> sep <> [] ->
  exists parts, split_body x p = Ok (as_value (VList (map VStr parts))) /\
                split_rel sep s parts /\ py_join sep parts = s.
Proof.
  intros x p s sep Hx Hp Hne. exists (split_go sep 0 [] s). split; [|split].
  - unfold split_body. rewrite (str_of_some x s Hx), (str_of_some p sep Hp). cbn [bind].
    destruct sep; [contradiction|]. reflexivity.
  - apply split_is_python. exact Hne.
  - apply join_split. exact Hne.
Qed.

Lemma rendered_strs : forall parts, rendered (map VStr parts) parts.
Proof. induction parts as [|q parts IH]; constructor; [reflexivity|exact IH]. Qed.

(* the round trip through both filters *)
Lemma split_then_join : forall (x p : value) (s sep : str),
  to_string (vv x) = Some s -> to_string (vv p) = Some sep -> sep <> [] ->
  exists y, split_body x p = Ok y /\ join_body y p = Ok (as_value (VStr s)).
Proof.
  intros x p s sep Hx Hp Hne.
  destruct (split_python x p s sep Hx Hp Hne) as [parts [Hs [_ Hj]]].
  exists (as_value (VList (map VStr parts))). split; [exact Hs|].
  rewrite (join_list (as_value (VList (map VStr parts))) p (map VStr parts) parts sep eq_refl Hp (rendered_strs parts)).
  rewrite Hj. reflexivity.
Qed.

(* ------------------------------------------------------------------ *)
(* add                                                                 *)

Lemma wrap64_is_int64_add : forall a b, is_int64 a -> is_int64 b -> wrap64 (a + b) = int64_add a b.
Proof.
  intros a b Ha Hb. unfold is_int64 in *. unfold wrap64, int64_add, two63, two64. cbv zeta.
  destruct (Z.ltb_spec 9223372036854775807 (a + b)); [lia|].
  destruct (Z.ltb_spec (a + b) (-9223372036854775808)); lia.
Qed.

Lemma add_ints : forall (x p : value) (a b : Z), vv x = VInt a -> vv p = VInt b ->
  add_body x p = Ok (as_value (VInt (wrap64 (a + b)))) /\
  (is_int64 a -> is_int64 b -> add_body x p = Ok (as_value (VInt (int64_add a b)))).
Proof.
  intros x p a b Hx Hp.
  assert (H : add_body x p = Ok (as_value (VInt (wrap64 (a + b))))).
  { unfold add_body, int_of. rewrite Hx, Hp. reflexivity. }
  split; [exact H|]. intros Ha Hb. rewrite H, wrap64_is_int64_add by assumption. reflexivity.
Qed.

Lemma add_floats : forall (x p : value) (a b : float),
  is_number (vv x) = true -> is_number (vv p) = true ->
  is_float (vv x) || is_float (vv p) = true ->
  to_float (vv x) = Some a -> to_float (vv p) = Some b ->
  add_body x p = Ok (as_value (VFloat (f_add a b))).
Proof.
  intros x p a b Nx Np Hf Ha Hb. unfold add_body, float_of. rewrite Nx, Np, Hf, Ha, Hb. reflexivity.
Qed.

(* anything else: the two texts one after the other (Django would try numbers first) *)
Lemma add_texts : forall (x p : value) (a b : str),
  is_number (vv x) && is_number (vv p) = false ->
  to_string (vv x) = Some a -> to_string (vv p) = Some b ->
  add_body x p = Ok (as_value (VStr (a ++ b))).
Proof.
  intros x p a b Hn Ha Hb. unfold add_body. rewrite Hn.
  rewrite (str_of_some x a Ha), (str_of_some p b Hb). reflexivity.
Qed.

(* ------------------------------------------------------------------ *)
(* default, default_if_none                                            *)

Lemma is_true_not_falsy : forall v, is_true v = negb (py_falsy v).
Proof.
  intros v. destruct v as [|b|z|f|s|l|m|m]; cbn [is_true py_falsy].
  - reflexivity.
  - rewrite Bool.negb_involutive. reflexivity.
  - reflexivity.
  - destruct f; reflexivity.
  - destruct s; reflexivity.
  - destruct l; reflexivity.
  - destruct m; reflexivity.
  - reflexivity.
Qed.

Lemma default_falsy : forall x p : value,
  default_body x p = Ok (if py_falsy (vv x) then p else x).
Proof.
  intros x p. unfold default_body. rewrite is_true_not_falsy. destruct (py_falsy (vv x)); reflexivity.
Qed.

Lemma default_if_none_nil : forall x p : value,
  (vv x = VNil -> default_if_none_body x p = Ok p) /\
  (vv x <> VNil -> default_if_none_body x p = Ok x).
Proof.
  intros x p. unfold default_if_none_body. split; intro H.
  - rewrite H. reflexivity.
  - destruct (vv x); try reflexivity. contradiction.
Qed.

(* ------------------------------------------------------------------ *)
(* yesno                                                               *)

Lemma tri_pick_ok : forall v y n m,
  (if is_nil v then okv (VStr m) else if is_true v then okv (VStr y) else okv (VStr n))
  = okv (VStr (tri_pick (tri_of v) y n m)).
Proof.
  intros v y n m. rewrite is_true_not_falsy. unfold tri_of.
  destruct v; cbn [is_nil]; try reflexivity;
    match goal with |- context [py_falsy ?w] => destruct (py_falsy w); reflexivity end.
Qed.

Lemma yesno_default : forall (x p : value), to_string (vv p) = Some [] ->
  yesno_body x p = Ok (as_value (VStr (tri_pick (tri_of (vv x)) s_yes s_no s_maybe))).
Proof.
  intros x p Hp. unfold yesno_body. rewrite (str_of_some p [] Hp). cbn [bind]. cbv zeta.
  cbn [bind]. rewrite tri_pick_ok. reflexivity.
Qed.

Lemma yesno_parts : forall (x p : value) (parts : list str),
  to_string (vv p) = Some (py_join [44] parts) -> py_join [44] parts <> [] ->
  Forall (lacks 44) parts ->
  yesno_body x p = match yesno_ref (vv x) parts with
                   | Some s => Ok (as_value (VStr s))
                   | None => Err 5
                   end.
Proof.
  intros x p parts Hp Hne Hl. unfold yesno_body. rewrite (str_of_some p _ Hp). cbn [bind]. cbv zeta.
  destruct parts as [|a rest]; [exfalso; apply Hne; reflexivity|].
  rewrite (split1_join 44 a rest Hl).
  destruct (py_join [44] (a :: rest)) as [|c0 ps0] eqn:E; [exfalso; apply Hne; reflexivity|].
  destruct rest as [|b [|c [|d rest]]]; cbn [length Nat.ltb Nat.leb Nat.eqb nth bind yesno_ref];
    try reflexivity; rewrite tri_pick_ok; reflexivity.
Qed.

(* ------------------------------------------------------------------ *)
(* pluralize                                                           *)

Lemma runes_nonempty : forall b s, runes (b :: s) <> [].
Proof.
  intros b s. unfold runes. cbn [runes_go]. destruct (decode_rune (b :: s)) as [r w]. discriminate.
Qed.

Lemma val_len_str_pos : forall s, s <> [] -> (0 <? val_len (VStr s))%Z = true.
Proof.
  intros s Hs. destruct s as [|b s]; [contradiction|]. cbn [val_len].
  pose proof (runes_nonempty b s) as H. destruct (runes (b :: s)); [contradiction|].
  cbn [length]. apply Z.ltb_lt. lia.
Qed.

Lemma pluralize_parts : forall (x p : value) (n : Z) (parts : list str),
  is_number (vv x) = true -> to_integer (vv x) = Some n ->
  vv p = VStr (py_join [44] parts) -> py_join [44] parts <> [] -> Forall (lacks 44) parts ->
  pluralize_body x p = match pluralize_ref n parts with
                       | Some s => Ok (as_value (VStr s))
                       | None => Err 5
                       end.
Proof.
  intros x p n parts Hnum Hn Hp Hne Hl. unfold pluralize_body, int_of. rewrite Hnum, Hn. cbn [of_opt bind].
  rewrite Hp. rewrite (val_len_str_pos _ Hne).
  rewrite (str_of_some p (py_join [44] parts)) by (rewrite Hp; reflexivity). cbn [bind]. cbv zeta.
  destruct parts as [|a rest]; [exfalso; apply Hne; reflexivity|].
  rewrite (split1_join 44 a rest Hl).
  destruct rest as [|b [|c rest]]; cbn [pluralize_ref]; try reflexivity;
    destruct (n =? 1)%Z; reflexivity.
Qed.

Lemma pluralize_noarg : forall (x p : value) (n : Z),
  is_number (vv x) = true -> to_integer (vv x) = Some n -> val_len (vv p) = 0%Z ->
  pluralize_body x p = Ok (as_value (VStr (if (n =? 1)%Z then [] else [115]))).
Proof.
  intros x p n Hnum Hn Hp. unfold pluralize_body, int_of. rewrite Hnum, Hn, Hp. cbn [of_opt bind].
  change (0 <? 0)%Z with false. cbv iota. destruct (n =? 1)%Z; reflexivity.
Qed.

Lemma pluralize_not_number : forall (x p : value), is_number (vv x) = false -> pluralize_body x p = Err 5.
Proof. intros x p H. unfold pluralize_body. rewrite H. reflexivity. Qed.

(* ------------------------------------------------------------------ *)
(* cut                                                                 *)

Lemma replace_go_skip : forall old new t s,
  replace_go old new (length t) (t ++ s) = replace_go old new 0 s.
Proof. intros old new t. induction t as [|c t IH]; intro s; [reflexivity|]. cbn [length app replace_go]. apply IH. Qed.

Lemma replace_go_hit : forall old new rest, old <> [] ->
  replace_go old new 0 (old ++ rest) = new ++ replace_go old new 0 rest.
Proof.
  intros old new rest Hne. destruct old as [|c old']; [contradiction|].
  change ((c :: old') ++ rest) with (c :: (old' ++ rest)).
  cbn [replace_go]. change (c :: old' ++ rest) with ((c :: old') ++ rest).
  rewrite is_prefix_self. replace (length (c :: old') - 1)%nat with (length old') by (cbn [length]; lia).
  rewrite replace_go_skip. reflexivity.
Qed.

Lemma replace_go_miss : forall old new c s, is_prefix old (c :: s) = false ->
  replace_go old new 0 (c :: s) = c :: replace_go old new 0 s.
Proof. intros old new c s H. cbn [replace_go]. rewrite H. reflexivity. Qed.

(* the relation of the reference has exactly one result, the filter's *)
Lemma cut_rel_is_cut_str : forall x, x <> [] -> forall s r, cut_rel x s r <-> r = cut_str s x.
Proof.
  intros x Hne.
  assert (Hc : forall s, cut_str s x = replace_go x [] 0 s) by (intro s; destruct x; [contradiction|reflexivity]).
  intros s r. rewrite Hc. split.
  - intro H. induction H as [|rest r H IH|c s r Hns H IH].
    + reflexivity.
    + rewrite replace_go_hit by exact Hne. exact IH.
    + rewrite replace_go_miss; [rewrite IH; reflexivity|].
      destruct (is_prefix x (c :: s)) eqn:E; [|reflexivity].
      exfalso. apply Hns. apply is_prefix_iff. exact E.
  - intro H. subst r.
    assert (G : forall n s, (length s <= n)%nat -> cut_rel x s (replace_go x [] 0 s)).
    { clear s. induction n as [|n IH]; intros s Hn.
      - destruct s; [constructor|cbn [length] in Hn; lia].
      - destruct s as [|c s]; [constructor|].
        destruct (is_prefix x (c :: s)) eqn:E.
        + apply is_prefix_iff in E. destruct E as [rest Hrest]. rewrite Hrest.
          rewrite replace_go_hit by exact Hne. apply cut_hit. apply IH.
          apply (f_equal (@length N)) in Hrest. rewrite app_length in Hrest.
          destruct x; [contradiction|cbn [length] in Hrest, Hn; lia].
        + rewrite replace_go_miss by exact E. apply cut_keep.
          * intro Hs. apply is_prefix_iff in Hs. rewrite Hs in E. discriminate.
          * apply IH. cbn [length] in Hn. lia. }
    apply (G (length s)). apply le_n.
Qed.

Lemma cut_filter : forall (x p : value) (s o : str),
  to_string (vv x) = Some s -> to_string (vv p) = Some o ->
  cut_body x p = Ok (as_value (VStr (cut_str s o))).
Proof.
  intros x p s o Hx Hp. unfold cut_body. rewrite (str_of_some x s Hx), (str_of_some p o Hp). reflexivity.
Qed.

(* a one-byte argument: exactly the other bytes remain, so no occurrence is left *)
Lemma cut_byte : forall s c, cut_str s [c] = filter (fun b => negb (b =? c)) s.
Proof.
  intros s c. unfold cut_str. induction s as [|b s IH]; [reflexivity|].
  cbn [filter]. destruct (N.eqb_spec b c) as [E|E]; cbn [negb].
  - subst b. change (c :: s) with ([c] ++ s). rewrite replace_go_hit by discriminate. exact IH.
  - rewrite replace_go_miss; [rewrite IH; reflexivity|].
    rewrite is_prefix1. apply N.eqb_neq. congruence.
Qed.

Lemma cut_byte_gone : forall s c, lacks c (cut_str s [c]).
Proof.
  intros s c. rewrite cut_byte. intro H. apply filter_In in H. destruct H as [_ H].
  rewrite N.eqb_refl in H. discriminate.
Qed.

(* nothing to cut: the text stays *)
Lemma cut_absent : forall s x, x <> [] -> ~ occurs x s -> cut_str s x = s.
Proof.
  intros s x Hne Hno. symmetry. apply (cut_rel_is_cut_str x Hne).
  induction s as [|c s IH]; [constructor|].
  apply cut_keep.
  - intros [t Ht]. apply Hno. exists [], t. exact Ht.
  - apply IH. intros [a [b H]]. apply Hno. exists (c :: a), b. rewrite H. reflexivity.
Qed.

(* the empty argument cuts nothing (Python would do the same) *)
Lemma cut_empty : forall s, cut_str s [] = s.
Proof. reflexivity. Qed.

(* ------------------------------------------------------------------ *)
(* wordcount: fields                                                   *)

(* word ends seen so far, walking the characters *)
Fixpoint word_ends (inword : bool) (rs : list N) : nat :=
  match rs with
  | [] => if inword then 1 else 0
  | r :: t => if is_space_rune r then (if inword then 1 else 0) + word_ends false t
              else word_ends true t
  end.

Lemma fields_ws_count : forall s k inws cur,
  (inws = true -> cur = []) -> (k <> 0%nat -> inws = false -> cur <> []) ->
  length (fields_ws k inws cur s) = word_ends (nonempty cur) (runes_go k s).
Proof.
  induction s as [|b s IH]; intros k inws cur H1 H2.
  - cbn [fields_ws runes_go word_ends]. destruct cur; reflexivity.
  - destruct k as [|k].
    + cbn [fields_ws runes_go]. destruct (decode_rune (b :: s)) as [r w]. cbn [word_ends].
      destruct (is_space_rune r).
      * destruct cur as [|c cur]; cbn [nonempty length].
        -- rewrite IH; [reflexivity|reflexivity|intros _ H; discriminate].
        -- rewrite IH; [reflexivity|reflexivity|intros _ H; discriminate].
      * rewrite IH; [reflexivity|intro H; discriminate|intros _ _; discriminate].
    + cbn [fields_ws runes_go]. destruct inws.
      * rewrite IH; [reflexivity|exact H1|intros _ H; discriminate].
      * rewrite IH; [|intro H; discriminate|intros _ _; discriminate].
        assert (Hc : cur <> []) by (apply H2; [discriminate|reflexivity]).
        destruct cur; [contradiction|reflexivity].
Qed.

Lemma split_on_nonnil : forall {A} (p : A -> bool) l, split_on p l <> [].
Proof.
  intros A p l. destruct l as [|c r]; cbn [split_on]; [discriminate|].
  destruct (p c); [discriminate|]. destruct (split_on p r); discriminate.
Qed.

Lemma word_ends_split_on : forall rs inword,
  word_ends inword rs =
  match split_on is_space_rune rs with
  | h :: tl => ((if inword || nonempty h then 1 else 0) + length (filter nonempty tl))%nat
  | [] => 0%nat
  end.
Proof.
  induction rs as [|r t IH]; intro inword.
  - cbn [word_ends split_on filter length nonempty]. rewrite Bool.orb_false_r, Nat.add_0_r. reflexivity.
  - cbn [word_ends split_on]. destruct (is_space_rune r).
    + rewrite (IH false). cbn [nonempty filter]. rewrite Bool.orb_false_r.
      pose proof (split_on_nonnil is_space_rune t) as Hn.
      destruct (split_on is_space_rune t) as [|h tl]; [contradiction|].
      cbn [orb filter]. destruct (nonempty h); reflexivity.
    + rewrite (IH true).
      pose proof (split_on_nonnil is_space_rune t) as Hn.
      destruct (split_on is_space_rune t) as [|h tl]; [contradiction|].
      cbn [orb nonempty]. rewrite Bool.orb_true_r. reflexivity.
Qed.

(* the number of fields is the number of white-space separated words of the character list *)
Lemma fields_count : forall s, length (fields s) = length (ws_fields is_space_rune (runes s)).
Proof.
  intro s. unfold fields, runes. rewrite fields_ws_count; [|intro H; discriminate|intros H; contradiction].
  rewrite word_ends_split_on. unfold ws_fields. cbn [nonempty orb].
  pose proof (split_on_nonnil is_space_rune (runes_go 0 s)) as Hn.
  destruct (split_on is_space_rune (runes_go 0 s)) as [|h tl]; [contradiction|].
  cbn [filter]. destruct (nonempty h); reflexivity.
Qed.

Lemma wordcount_counts : forall (x : value) (s : str), to_string (vv x) = Some s ->
  wordcount_body x = Ok (as_value (VInt (Z.of_nat (length (ws_fields is_space_rune (runes s)))))).
Proof.
  intros x s Hx. unfold wordcount_body. rewrite (str_of_some x s Hx). cbn [bind].
  rewrite fields_count. reflexivity.
Qed.

(* on ASCII text the fields themselves: bytes are characters *)
Lemma all_ascii_spec : forall s, all_ascii s = true <-> is_ascii s.
Proof.
  intro s. unfold all_ascii, is_ascii. rewrite forallb_forall, Forall_forall.
  split; intros H b Hb; specialize (H b Hb); [apply N.ltb_lt|apply N.ltb_lt]; exact H.
Qed.

Lemma decode_ascii : forall b s, b < 128 -> decode_rune (b :: s) = (b, 1%nat).
Proof. intros b s H. cbn [decode_rune]. apply N.ltb_lt in H. rewrite H. reflexivity. Qed.

Lemma runes_ascii : forall s, is_ascii s -> runes s = s.
Proof.
  intros s H. unfold runes. induction H as [|b s Hb Hs IH]; [reflexivity|].
  cbn [runes_go]. rewrite decode_ascii by exact Hb. cbn [Nat.sub]. rewrite IH. reflexivity.
Qed.

Lemma fields_ws_inws : forall cur s, fields_ws 0 true cur s = fields_ws 0 false cur s.
Proof. intros cur s. destruct s; reflexivity. Qed.

Lemma fields_ws_ascii : forall s cur, is_ascii s ->
  fields_ws 0 false cur s =
  match split_on is_space_rune s with
  | h :: tl => match rev cur ++ h with [] => filter nonempty tl | w => w :: filter nonempty tl end
  | [] => []
  end.
Proof.
  intros s cur H. revert cur. induction H as [|b s Hb Hs IH]; intro cur.
  - cbn [fields_ws split_on filter]. rewrite app_nil_r.
    destruct cur as [|c cur]; [reflexivity|].
    destruct (rev (c :: cur)) eqn:E; [|reflexivity].
    apply (f_equal (@length N)) in E. rewrite rev_length in E. discriminate.
  - cbn [fields_ws split_on]. rewrite decode_ascii by exact Hb. cbn [Nat.sub].
    pose proof (split_on_nonnil is_space_rune s) as Hn.
    destruct (is_space_rune b).
    + rewrite fields_ws_inws, (IH []). cbn [rev app].
      destruct (split_on is_space_rune s) as [|h tl]; [contradiction|].
      rewrite app_nil_r. cbn [filter].
      destruct cur as [|c cur]; [destruct h; reflexivity|].
      destruct (rev (c :: cur)) eqn:E; [|destruct h; reflexivity].
      apply (f_equal (@length N)) in E. rewrite rev_length in E. discriminate.
    + rewrite (IH (b :: cur)).
      destruct (split_on is_space_rune s) as [|h tl]; [contradiction|].
      cbn [rev]. rewrite <- app_assoc. reflexivity.
Qed.

Lemma fields_ascii : forall s, is_ascii s -> fields s = ws_fields is_space_rune s.
Proof.
  intros s H. unfold fields, ws_fields. rewrite fields_ws_ascii by exact H.
  pose proof (split_on_nonnil is_space_rune s) as Hn.
  destruct (split_on is_space_rune s) as [|h tl]; [contradiction|].
  cbn [rev app filter]. destruct h; reflexivity.
Qed.

(* ------------------------------------------------------------------ *)
(* upper, lower, capfirst                                              *)

Definition below128 : list N := map N.of_nat (seq 0 128).
Lemma in_below128 : forall b, b < 128 -> In b below128.
Proof.
  intros b Hb. unfold below128. apply in_map_iff. exists (N.to_nat b).
  split; [apply N2Nat.id | apply in_seq; lia].
Qed.

Lemma case_check : forallb (fun b => (upper_b b =? ascii_upper b) && (lower_b b =? ascii_lower b)) below128 = true.
Proof. vm_compute. reflexivity. Qed.

Lemma index_of_none : forall b l, ~ In b l -> index_of b l = None.
Proof.
  intros b l. induction l as [|c l IH]; intro H; [reflexivity|].
  cbn [index_of]. destruct (N.eqb_spec b c) as [E|E]; [exfalso; apply H; left; congruence|].
  rewrite IH; [reflexivity|]. intro Hin. apply H. right. exact Hin.
Qed.

Lemma alphabets_ascii : forallb (fun c => c <? 128) (lower_alphabet ++ upper_alphabet) = true.
Proof. vm_compute. reflexivity. Qed.

Lemma case_bytes : forall b, upper_b b = ascii_upper b /\ lower_b b = ascii_lower b.
Proof.
  intro b. destruct (N.lt_ge_cases b 128) as [Hlt|Hge].
  - pose proof (proj1 (forallb_forall _ _) case_check b (in_below128 b Hlt)) as H.
    apply Bool.andb_true_iff in H. destruct H as [H1 H2].
    apply N.eqb_eq in H1. apply N.eqb_eq in H2. split; assumption.
  - assert (Hno : forall l, In b l -> In b (lower_alphabet ++ upper_alphabet) -> False).
    { intros l _ Hin. pose proof (proj1 (forallb_forall _ _) alphabets_ascii b Hin) as H.
      apply N.ltb_lt in H. lia. }
    unfold upper_b, lower_b, ascii_upper, ascii_lower, is_lower, is_upper.
    rewrite !index_of_none.
    + destruct (N.leb_spec 97 b), (N.leb_spec b 122), (N.leb_spec 65 b), (N.leb_spec b 90);
        cbn [andb]; try lia; split; reflexivity.
    + intro Hin. apply (Hno upper_alphabet Hin). apply in_or_app. right. exact Hin.
    + intro Hin. apply (Hno lower_alphabet Hin). apply in_or_app. left. exact Hin.
Qed.

Lemma all_ascii_false : forall s, ~ is_ascii s -> all_ascii s = false.
Proof.
  intros s H. destruct (all_ascii s) eqn:E; [|reflexivity]. exfalso. apply H. apply all_ascii_spec. exact E.
Qed.

Lemma upper_ascii : forall (x : value) (s : str), to_string (vv x) = Some s ->
  (is_ascii s -> upper_body x = Ok (as_value (VStr (map ascii_upper s)))) /\
  (~ is_ascii s -> upper_body x = Unmod).
Proof.
  intros x s Hx. unfold upper_body, to_upper. rewrite (str_of_some x s Hx). cbn [bind]. split; intro H.
  - rewrite (proj2 (all_ascii_spec s) H). cbn [of_opt bind].
    rewrite (map_ext upper_b ascii_upper) by (intro b; apply case_bytes). reflexivity.
  - rewrite (all_ascii_false s H). reflexivity.
Qed.

Lemma lower_ascii : forall (x : value) (s : str), to_string (vv x) = Some s ->
  (is_ascii s -> lower_body x = Ok (as_value (VStr (map ascii_lower s)))) /\
  (~ is_ascii s -> lower_body x = Unmod).
Proof.
  intros x s Hx. unfold lower_body, to_lower. rewrite (str_of_some x s Hx). cbn [bind]. split; intro H.
  - rewrite (proj2 (all_ascii_spec s) H). cbn [of_opt bind].
    rewrite (map_ext lower_b ascii_lower) by (intro b; apply case_bytes). reflexivity.
  - rewrite (all_ascii_false s H). reflexivity.
Qed.

(* capfirst: only the first byte changes; the rest of the text may be anything *)
Lemma capfirst_string : forall (x : value) (b : N) (rest : str), vv x = VStr (b :: rest) ->
  (b < 128 -> capfirst_body x = Ok (as_value (VStr (ascii_upper b :: rest)))) /\
  (128 <= b -> capfirst_body x = Unmod).
Proof.
  intros x b rest Hx. unfold capfirst_body. rewrite Hx.
  pose proof (val_len_str_pos (b :: rest)) as Hp. 
  assert (Hl : (val_len (VStr (b :: rest)) <=? 0)%Z = false).
  { apply Z.leb_gt. apply Z.ltb_lt. apply Hp. discriminate. }
  rewrite Hl. rewrite (str_of_some x (b :: rest)) by (rewrite Hx; reflexivity). cbn [bind].
  split; intro H.
  - apply N.ltb_lt in H. rewrite H. rewrite (proj1 (case_bytes b)). reflexivity.
  - apply N.ltb_ge in H. rewrite H. reflexivity.
Qed.

(* anything without characters (the empty string, but also nil and numbers) gives "" *)
Lemma capfirst_empty : forall (x : value), val_len (vv x) = 0%Z ->
  capfirst_body x = Ok (as_value (VStr [])).
Proof. intros x H. unfold capfirst_body. rewrite H. reflexivity. Qed.

(* ------------------------------------------------------------------ *)
(* make_list, length_is                                                *)

Lemma make_list_chars : forall (x : value) (s : str), to_string (vv x) = Some s ->
  make_list_body x = Ok (as_value (VList (map VStr (chars s)))).
Proof.
  intros x s Hx. unfold make_list_body, chars. rewrite (str_of_some x s Hx). cbn [bind].
  rewrite map_map. reflexivity.
Qed.

Lemma chars_ascii : forall s, is_ascii s -> chars s = map (fun b => [b]) s.
Proof.
  intros s H. unfold chars. rewrite runes_ascii by exact H.
  apply map_ext_in. intros b Hb. unfold is_ascii in H. rewrite Forall_forall in H. specialize (H b Hb).
  unfold encode_rune. apply N.ltb_lt in H. rewrite H. reflexivity.
Qed.

Lemma dec_digits_ascii : forall f n acc, is_ascii acc -> is_ascii (dec_digits f n acc).
Proof.
  induction f as [|f IH]; intros n acc H; [exact H|].
  cbn [dec_digits]. cbv zeta.
  assert (Hd : is_ascii ((48 + Z.to_N (n mod 10)) :: acc)).
  { constructor; [|exact H]. pose proof (Z.mod_pos_bound n 10 ltac:(lia)). lia. }
  destruct (n / 10 =? 0)%Z; [exact Hd|]. apply IH. exact Hd.
Qed.

Lemma itoa_ascii : forall z, is_ascii (itoa z).
Proof.
  intro z. unfold itoa. destruct (z <? 0)%Z.
  - constructor; [lia|]. apply dec_digits_ascii. constructor.
  - apply dec_digits_ascii. constructor.
Qed.

(* an integer: its decimal digits (and the sign), one string each *)
Lemma make_list_int : forall (x : value) (z : Z), vv x = VInt z ->
  make_list_body x = Ok (as_value (VList (map (fun b => VStr [b]) (itoa z)))).
Proof.
  intros x z Hx. rewrite (make_list_chars x (itoa z)) by (rewrite Hx; reflexivity).
  rewrite chars_ascii by apply itoa_ascii. rewrite map_map. reflexivity.
Qed.

Lemma length_is_compares : forall (x p : value) (n : Z), to_integer (vv p) = Some n ->
  length_is_body x p = Ok (as_value (VBool (val_len (vv x) =? n)%Z)).
Proof. intros x p n Hp. unfold length_is_body, int_of. rewrite Hp. reflexivity. Qed.

(* ------------------------------------------------------------------ *)
(* get_digit                                                           *)

(* the text of a natural number: its decimal digits, most significant first, no padding *)
Lemma dec_digits_shape : forall f n acc, (0 <= n < 10 ^ Z.of_nat (S f))%Z ->
  exists ds, dec_digits (S f) n acc = ds ++ acc /\ (1 <= length ds)%nat /\
    (forall j, (j < length ds)%nat ->
       nth j (rev ds) 0 = 48 + Z.to_N ((n / 10 ^ Z.of_nat j) mod 10)) /\
    (n = 0%Z -> length ds = 1%nat) /\
    ((0 < n)%Z -> (10 ^ Z.of_nat (length ds) <= 10 * n)%Z /\ (n < 10 ^ Z.of_nat (length ds))%Z).
Proof.
  induction f as [|f IH]; intros n acc Hn.
  - change (10 ^ Z.of_nat 1)%Z with 10%Z in Hn.
    exists [48 + Z.to_N (n mod 10)]. cbn [dec_digits]. cbv zeta.
    assert (E : (n / 10 =? 0)%Z = true) by (apply Z.eqb_eq; lia). rewrite E.
    split; [reflexivity|]. split; [cbn [length]; lia|]. split; [|split].
    + intros j Hj. cbn [length] in Hj. assert (j = 0%nat) by lia. subst j.
      cbn [rev app nth]. change (10 ^ Z.of_nat 0)%Z with 1%Z. rewrite Z.div_1_r. reflexivity.
    + reflexivity.
    + intros Hpos. cbn [length]. change (10 ^ Z.of_nat 1)%Z with 10%Z. lia.
  - assert (Hpow : (10 ^ Z.of_nat (S (S f)) = 10 * 10 ^ Z.of_nat (S f))%Z)
      by (rewrite (Nat2Z.inj_succ (S f)), Z.pow_succ_r by lia; reflexivity).
    rewrite Hpow in Hn. set (P := (10 ^ Z.of_nat (S f))%Z) in *.
    assert (HP : (0 < P)%Z) by (apply Z.pow_pos_nonneg; lia).
    change (dec_digits (S (S f)) n acc)
      with (let acc' := (48 + Z.to_N (n mod 10)) :: acc in
            if (n / 10 =? 0)%Z then acc' else dec_digits (S f) (n / 10) acc').
    cbv zeta. destruct (Z.eqb_spec (n / 10) 0) as [E|E].
    + exists [48 + Z.to_N (n mod 10)].
      split; [reflexivity|]. split; [cbn [length]; lia|]. split; [|split].
      * intros j Hj. cbn [length] in Hj. assert (j = 0%nat) by lia. subst j.
        cbn [rev app nth]. change (10 ^ Z.of_nat 0)%Z with 1%Z. rewrite Z.div_1_r. reflexivity.
      * reflexivity.
      * intros Hpos. cbn [length]. change (10 ^ Z.of_nat 1)%Z with 10%Z. lia.
    + assert (Hq : (0 <= n / 10 < P)%Z) by lia.
      destruct (IH (n / 10)%Z ((48 + Z.to_N (n mod 10)) :: acc) Hq) as [ds [Hds [Hlen [Hnth [_ Hbnd]]]]].
      exists (ds ++ [48 + Z.to_N (n mod 10)]). split; [|split; [|split; [|split]]].
      * rewrite Hds. rewrite <- app_assoc. reflexivity.
      * rewrite app_length. cbn [length]. lia.
      * intros j Hj. rewrite rev_app_distr. cbn [rev app]. destruct j as [|j].
        -- cbn [nth]. change (10 ^ Z.of_nat 0)%Z with 1%Z. rewrite Z.div_1_r. reflexivity.
        -- cbn [nth]. rewrite app_length in Hj. cbn [length] in Hj. rewrite Hnth by lia.
           rewrite (Nat2Z.inj_succ j), Z.pow_succ_r by lia.
           rewrite Z.div_div by (try lia; apply Z.pow_pos_nonneg; lia). reflexivity.
      * intro H0. lia.
      * intros Hpos. rewrite app_length. cbn [length].
        replace (Z.of_nat (length ds + 1)) with (Z.succ (Z.of_nat (length ds))) by lia.
        rewrite Z.pow_succ_r by lia.
        destruct Hbnd as [Hb1 Hb2]; [lia|]. set (Q := (10 ^ Z.of_nat (length ds))%Z) in *. lia.
Qed.

Lemma pow10_25 : (9223372036854775807 < 10 ^ Z.of_nat 25)%Z.
Proof. vm_compute. reflexivity. Qed.

Lemma get_digit_nat : forall (x p : value) (z i : Z),
  vv x = VInt z -> to_integer (vv p) = Some i -> (0 <= z)%Z -> is_int64 z -> (1 <= i)%Z ->
  get_digit_body x p = if (i =? 1)%Z || (10 ^ (i - 1) <=? z)%Z
                       then Ok (as_value (VInt (digit_from_right z i))) else Ok x.
Proof.
  intros x p z i Hx Hp Hz0 Hz Hi. unfold is_int64 in Hz.
  unfold get_digit_body, int_of. rewrite Hp. cbn [of_opt bind].
  rewrite (str_of_some x (itoa z)) by (rewrite Hx; reflexivity). cbn [bind]. cbv zeta.
  unfold itoa. destruct (Z.ltb_spec z 0) as [Hneg|_]; [lia|].
  pose proof pow10_25 as H25.
  destruct (dec_digits_shape 24 z [] ltac:(lia)) as [ds [Hds [Hlen [Hnth [Hzero Hbnd]]]]].
  rewrite Hds, app_nil_r. set (L := length ds) in *.
  destruct (Z.leb_spec i 0) as [Hle|_]; [lia|]. cbn [orb].
  destruct (Z.ltb_spec (Z.of_nat L) i) as [Hout|Hin].
  - (* i is beyond the number of digits *)
    assert (Hi1 : (i =? 1)%Z = false) by (apply Z.eqb_neq; lia). rewrite Hi1. cbn [orb].
    destruct (Z.leb_spec (10 ^ (i - 1)) z) as [Hc|Hc]; [|reflexivity]. exfalso.
    assert (Hp10 : (10 ^ Z.of_nat L <= 10 ^ (i - 1))%Z) by (apply Z.pow_le_mono_r; lia).
    assert (Hpos1 : (0 < 10 ^ Z.of_nat L)%Z) by (apply Z.pow_pos_nonneg; lia).
    destruct (Z.eq_dec z 0) as [E0|E0]; [lia|]. destruct Hbnd as [_ Hb2]; lia.
  - (* i is a digit position *)
    assert (Hcond : (i =? 1)%Z || (10 ^ (i - 1) <=? z)%Z = true).
    { destruct (Z.eqb_spec i 1) as [E1|E1]; [reflexivity|]. cbn [orb]. apply Z.leb_le.
      destruct (Z.eq_dec z 0) as [E0|E0]; [specialize (Hzero E0); lia|].
      destruct Hbnd as [Hb1 _]; [lia|].
      assert (Hp10 : (10 ^ i <= 10 ^ Z.of_nat L)%Z) by (apply Z.pow_le_mono_r; lia).
      replace i with (Z.succ (i - 1)) in Hp10 at 1 by lia. rewrite Z.pow_succ_r in Hp10 by lia. lia. }
    rewrite Hcond.
    replace (Z.to_nat (Z.of_nat L - i)) with (L - S (Z.to_nat (i - 1)))%nat by lia.
    subst L. rewrite <- rev_nth by lia. rewrite Hnth by lia.
    rewrite Z2Nat.id by lia.
    assert (Hd : (0 <= (z / 10 ^ (i - 1)) mod 10 < 10)%Z) by (apply Z.mod_pos_bound; lia).
    unfold digit_from_right.
    set (d := ((z / 10 ^ (i - 1)) mod 10)%Z) in *.
    assert (G : ((48 + Z.to_N d <? 48) || (57 <? 48 + Z.to_N d))%N = false).
    { apply Bool.orb_false_iff. split; apply N.ltb_ge; lia. }
    rewrite G. unfold okv. do 3 f_equal. lia.
Qed.

(* a position that holds no digit (a sign, a letter) gives the input back (fix D39) *)
Lemma get_digit_no_digit : forall (x p : value) (s : str) (i : Z),
  to_string (vv x) = Some s -> to_integer (vv p) = Some i ->
  (1 <= i <= Z.of_nat (length s))%Z ->
  (let c := nth (Z.to_nat (Z.of_nat (length s) - i)) s 0%N in (c <? 48)%N || (57 <? c)%N = true) ->
  get_digit_body x p = Ok x.
Proof.
  intros x p s i Hx Hp Hi Hc. unfold get_digit_body, int_of. rewrite Hp. cbn [of_opt bind].
  rewrite (str_of_some x s Hx). cbn [bind]. cbv zeta in *.
  destruct (Z.leb_spec i 0) as [Hle|_]; [lia|]. cbn [orb].
  destruct (Z.ltb_spec (Z.of_nat (length s)) i) as [Hout|_]; [lia|].
  rewrite Hc. reflexivity.
Qed.

(* a position below 1 gives the input back *)
Lemma get_digit_nonpositive : forall (x p : value) (s : str) (i : Z),
  to_string (vv x) = Some s -> to_integer (vv p) = Some i -> (i <= 0)%Z ->
  get_digit_body x p = Ok x.
Proof.
  intros x p s i Hx Hp Hi. unfold get_digit_body, int_of. rewrite Hp. cbn [of_opt bind].
  rewrite (str_of_some x s Hx). cbn [bind]. cbv zeta.
  destruct (Z.leb_spec i 0); [reflexivity|lia].
Qed.

(* ------------------------------------------------------------------ *)
(* linenumbers                                                         *)

Lemma linenumbers_go_numbered : forall lines a,
  linenumbers_go (Z.of_nat a + 1) lines =
  map (fun '(k, l) => itoa (Z.of_nat k + 1) ++ [46; 32] ++ l) (combine (seq a (length lines)) lines).
Proof.
  induction lines as [|l lines IH]; intro a; [reflexivity|].
  cbn [linenumbers_go length seq combine map]. f_equal.
  replace (Z.of_nat a + 1 + 1)%Z with (Z.of_nat (S a) + 1)%Z by lia. apply IH.
Qed.

Lemma linenumbers_lines : forall (x : value) (line : str) (lines : list str),
  to_string (vv x) = Some (py_join [10] (line :: lines)) -> Forall (lacks 10) (line :: lines) ->
  linenumbers_body x = Ok (as_value (VStr (py_join [10] (numbered (line :: lines))))).
Proof.
  intros x line lines Hx Hl. unfold linenumbers_body. rewrite (str_of_some x _ Hx). cbn [bind].
  rewrite (split1_join 10 line lines Hl). rewrite join_go_is_py_join.
  change 1%Z with (Z.of_nat 0 + 1)%Z. rewrite linenumbers_go_numbered. reflexivity.
Qed.

(* ------------------------------------------------------------------ *)
(* truncatewords, truncatechars                                        *)

Lemma truncatewords_fields : forall (x p : value) (s : str) (n : Z),
  to_string (vv x) = Some s -> to_integer (vv p) = Some n ->
  truncatewords_body x p = Ok (as_value (VStr (py_join [32] (truncwords_ref (fields s) n)))).
Proof.
  intros x p s n Hx Hp. unfold truncatewords_body, int_of. rewrite (str_of_some x s Hx), Hp.
  cbn [of_opt bind]. cbv zeta. unfold truncwords_ref.
  destruct (Z.leb_spec n 0) as [Hn|Hn]; [reflexivity|].
  rewrite join_go_is_py_join.
  destruct (Z.leb_spec (Z.of_nat (length (fields s))) n) as [Hfit|Hcut].
  - rewrite Z.min_l by lia. rewrite Nat2Z.id, firstn_all.
    destruct (Z.ltb_spec n (Z.of_nat (length (fields s)))); [lia|reflexivity].
  - rewrite Z.min_r by lia.
    destruct (Z.ltb_spec n (Z.of_nat (length (fields s)))); [reflexivity|lia].
Qed.

Lemma of_runes_app : forall a b, of_runes (a ++ b) = of_runes a ++ of_runes b.
Proof. intros a b. unfold of_runes. apply flat_map_app. Qed.

Lemma truncatechars_all : forall (x p : value) (s : str) (n : Z),
  to_string (vv x) = Some s -> to_integer (vv p) = Some n ->
  ((n <= 0)%Z -> truncatechars_body x p = Ok (as_value (VStr s))) /\
  ((0 < n)%Z -> truncatechars_body x p = Ok (as_value (VStr (of_runes (truncchars_ref (runes s) n))))).
Proof.
  intros x p s n Hx Hp. unfold truncatechars_body, int_of. rewrite (str_of_some x s Hx), Hp.
  cbn [of_opt bind]. unfold truncatechars_helper, truncchars_ref. split; intro Hn.
  - destruct (Z.leb_spec n 0); [reflexivity|lia].
  - destruct (Z.leb_spec n 0); [lia|]. cbv zeta.
    destruct (Z.ltb_spec n (Z.of_nat (length (runes s)))) as [Hcut|Hfit];
      destruct (Z.leb_spec (Z.of_nat (length (runes s))) n); try lia; [|reflexivity].
    destruct (3 <=? n)%Z; [|reflexivity]. rewrite of_runes_app. reflexivity.
Qed.

(* ------------------------------------------------------------------ *)
(* wordwrap                                                            *)

Lemma chunks_nil : forall {A} f n, @chunks A f n [] = [].
Proof. intros A f n. destruct f; reflexivity. Qed.

Lemma chunks_wrapped : forall {A} fuel n (l : list A), (1 <= n)%nat -> (length l <= fuel)%nat ->
  wrapped n l (chunks fuel n l).
Proof.
  intros A fuel n. induction fuel as [|f IH]; intros l Hn Hl.
  - destruct l; [reflexivity|cbn [length] in Hl; lia].
  - destruct l as [|a l]; [reflexivity|].
    change (chunks (S f) n (a :: l)) with (firstn n (a :: l) :: chunks f n (skipn n (a :: l))).
    destruct (Nat.le_gt_cases (length (a :: l)) n) as [Hfit|Hmore].
    + rewrite firstn_all2 by exact Hfit. rewrite skipn_all2 by exact Hfit. rewrite chunks_nil.
      cbn [wrapped]. split; [reflexivity|]. cbn [length] in *. lia.
    + pose proof (IH (skipn n (a :: l)) Hn) as Hrest.
      assert (Hlen : length (skipn n (a :: l)) = (length (a :: l) - n)%nat) by apply skipn_length.
      specialize (Hrest ltac:(cbn [length] in *; lia)).
      destruct (skipn n (a :: l)) as [|b rest] eqn:Es; [cbn [length] in *; lia|].
      destruct f as [|f]; [cbn [length] in *; lia|].
      change (chunks (S f) n (b :: rest)) with (firstn n (b :: rest) :: chunks f n (skipn n (b :: rest))) in *.
      cbn [wrapped]. split; [apply firstn_length_le; lia|].
      exists (b :: rest). split; [|exact Hrest].
      rewrite <- Es. symmetry. apply firstn_skipn.
Qed.

Lemma wrapped_wide : forall {A} n (l : list A), l <> [] -> (length l <= n)%nat -> wrapped n l [l].
Proof. intros A n l Hne Hl. cbn [wrapped]. split; [reflexivity|]. destruct l; [contradiction|cbn [length] in *; lia]. Qed.

Lemma wordwrap_fields : forall (x p : value) (s : str) (w : Z),
  to_string (vv x) = Some s -> to_integer (vv p) = Some w ->
  ((w <= 0)%Z -> wordwrap_body x p = Ok x) /\
  ((0 < w)%Z -> exists lines,
     wordwrap_body x p = Ok (as_value (VStr (py_join [10] (map (py_join [32]) lines)))) /\
     wrapped (Z.to_nat w) (fields s) lines).
Proof.
  intros x p s w Hx Hp. unfold wordwrap_body, int_of. rewrite (str_of_some x s Hx), Hp.
  cbn [of_opt bind]. cbv zeta. split; intro Hw.
  - destruct (Z.leb_spec w 0); [reflexivity|lia].
  - destruct (Z.leb_spec w 0); [lia|].
    set (words := fields s).
    set (n := Z.to_nat (Z.min w (Z.of_nat (length words) + 1))).
    exists (chunks (length words) n words). split.
    + rewrite join_go_is_py_join.
      rewrite (map_ext (join_go [32]) (py_join [32])) by (intro l; apply join_go_is_py_join).
      reflexivity.
    + destruct (Z.le_gt_cases w (Z.of_nat (length words))) as [Hle|Hgt].
      * replace n with (Z.to_nat w) by (unfold n; lia).
        apply chunks_wrapped; [lia|apply le_n].
      * replace n with (S (length words)) by (unfold n; lia).
        destruct words as [|a ws] eqn:Ew; [reflexivity|].
        change (chunks (length (a :: ws)) (S (length (a :: ws))) (a :: ws))
          with (firstn (S (length (a :: ws))) (a :: ws) :: chunks (length ws) (S (length (a :: ws))) (skipn (S (length (a :: ws))) (a :: ws))).
        rewrite firstn_all2 by lia. rewrite skipn_all2 by lia. rewrite chunks_nil.
        apply wrapped_wide; [discriminate|lia].
Qed.

(* ------------------------------------------------------------------ *)
(* Well-formed UTF-8: decoding what was encoded                        *)

Ltac btrue := unfold in_rng, is_cont; rewrite ?Bool.andb_true_iff, ?N.leb_le; lia.

Lemma decode_encode : forall r rest, scalar r ->
  decode_rune (encode_rune r ++ rest) = (r, length (encode_rune r)).
Proof.
  intros r rest Hs. unfold scalar in Hs. unfold encode_rune.
  destruct (N.ltb_spec r 128) as [H1|H1].
  { cbn [app length]. apply decode_ascii. exact H1. }
  destruct (N.ltb_spec r 2048) as [H2|H2].
  { cbn [app length decode_rune].
    assert (T1 : (192 + r / 64 <? 128) = false) by (apply N.ltb_ge; lia). rewrite T1.
    assert (T2 : in_rng 194 223 (192 + r / 64) = true) by btrue. rewrite T2.
    assert (T3 : is_cont (128 + r mod 64) = true) by btrue. rewrite T3.
    f_equal. lia. }
  assert (T0 : is_surrogate r || (1114111 <? r) = false).
  { apply Bool.orb_false_iff. unfold is_surrogate, in_rng. split.
    - apply Bool.andb_false_iff. rewrite !N.leb_gt. lia.
    - apply N.ltb_ge. lia. }
  rewrite T0.
  destruct (N.ltb_spec r 65536) as [H3|H3].
  { cbn [app length decode_rune].
    assert (T1 : (224 + r / 4096 <? 128) = false) by (apply N.ltb_ge; lia). rewrite T1.
    assert (T2 : in_rng 194 223 (224 + r / 4096) = false).
    { unfold in_rng. apply Bool.andb_false_iff. right. apply N.leb_gt. lia. }
    rewrite T2.
    assert (T3 : in_rng 224 239 (224 + r / 4096) = true) by btrue. rewrite T3.
    assert (T4 : in_rng (if 224 + r / 4096 =? 224 then 160 else 128)
                        (if 224 + r / 4096 =? 237 then 159 else 191)
                        (128 + (r / 64) mod 64) = true).
    { destruct (N.eqb_spec (224 + r / 4096) 224); destruct (N.eqb_spec (224 + r / 4096) 237); btrue. }
    cbv zeta. rewrite T4.
    assert (T5 : is_cont (128 + r mod 64) = true) by btrue. rewrite T5. cbn [andb].
    f_equal. lia. }
  cbn [app length decode_rune].
  assert (T1 : (240 + r / 262144 <? 128) = false) by (apply N.ltb_ge; lia). rewrite T1.
  assert (T2 : in_rng 194 223 (240 + r / 262144) = false).
  { unfold in_rng. apply Bool.andb_false_iff. right. apply N.leb_gt. lia. }
  rewrite T2.
  assert (T3 : in_rng 224 239 (240 + r / 262144) = false).
  { unfold in_rng. apply Bool.andb_false_iff. right. apply N.leb_gt. lia. }
  rewrite T3.
  assert (T4 : in_rng 240 244 (240 + r / 262144) = true) by btrue. rewrite T4.
  assert (T5 : in_rng (if 240 + r / 262144 =? 240 then 144 else 128)
                      (if 240 + r / 262144 =? 244 then 143 else 191)
                      (128 + (r / 4096) mod 64) = true).
  { destruct (N.eqb_spec (240 + r / 262144) 240); destruct (N.eqb_spec (240 + r / 262144) 244); btrue. }
  cbv zeta. rewrite T5.
  assert (T6 : is_cont (128 + (r / 64) mod 64) = true) by btrue. rewrite T6.
  assert (T7 : is_cont (128 + r mod 64) = true) by btrue. rewrite T7. cbn [andb].
  f_equal. lia.
Qed.

Lemma encode_rune_nonempty : forall r, exists b t, encode_rune r = b :: t.
Proof.
  intro r. unfold encode_rune.
  destruct (r <? 128); [eexists; eexists; reflexivity|].
  destruct (r <? 2048); [eexists; eexists; reflexivity|].
  destruct (is_surrogate r || (1114111 <? r)); [eexists; eexists; reflexivity|].
  destruct (r <? 65536); eexists; eexists; reflexivity.
Qed.

Lemma runes_go_skip : forall t s, runes_go (length t) (t ++ s) = runes_go 0 s.
Proof. induction t as [|c t IH]; intro s; [reflexivity|]. cbn [length app runes_go]. apply IH. Qed.

Lemma runes_encode : forall r rest, scalar r -> runes (encode_rune r ++ rest) = r :: runes rest.
Proof.
  intros r rest Hs. unfold runes. pose proof (decode_encode r rest Hs) as Hd.
  destruct (encode_rune_nonempty r) as [b [t Ht]]. rewrite Ht in *.
  cbn [app] in *. cbn [runes_go]. rewrite Hd. cbn [length Nat.sub]. rewrite Nat.sub_0_r.
  rewrite runes_go_skip. reflexivity.
Qed.

Lemma runes_of_runes : forall rs rest, Forall scalar rs -> runes (of_runes rs ++ rest) = rs ++ runes rest.
Proof.
  intros rs rest H. induction H as [|r rs Hr Hrs IH]; [reflexivity|].
  unfold of_runes in *. cbn [flat_map]. rewrite <- app_assoc. rewrite runes_encode by exact Hr.
  rewrite IH. reflexivity.
Qed.

Lemma runes_wf : forall rs, Forall scalar rs -> runes (of_runes rs) = rs.
Proof.
  intros rs H. pose proof (runes_of_runes rs [] H) as E. rewrite !app_nil_r in E. exact E.
Qed.

Lemma ascii_scalar : forall s, is_ascii s -> Forall scalar s /\ of_runes s = s.
Proof.
  intros s H. induction H as [|b s Hb Hs [IH1 IH2]]; [split; [constructor|reflexivity]|].
  split; [constructor; [left; lia|exact IH1]|].
  unfold of_runes in *. cbn [flat_map]. rewrite IH2. unfold encode_rune.
  apply N.ltb_lt in Hb. rewrite Hb. reflexivity.
Qed.

(* ------------------------------------------------------------------ *)
(* first and last on strings                                           *)

Lemma first_string : forall (x : value) (s : str), vv x = VStr s ->
  first_body x = Ok (as_value (VStr (hd [] (chars s)))).
Proof.
  intros x s Hx. unfold first_body, chars. rewrite Hx. cbn [can_slice andb val_len val_index].
  change (0 <? 0)%Z with false. cbv iota.
  destruct (runes s) as [|r rs]; [reflexivity|].
  cbn [length]. destruct (Z.ltb_spec 0 (Z.of_nat (S (length rs)))); [|lia]. reflexivity.
Qed.

Lemma last_string : forall (x : value) (s : str), vv x = VStr s ->
  last_body x = Ok (as_value (VStr (last (chars s) []))).
Proof.
  intros x s Hx. unfold last_body, chars. rewrite Hx. cbn [can_slice andb val_len val_index].
  destruct (runes s) as [|r0 rs0] eqn:E; [reflexivity|]. rewrite <- E.
  assert (Hne : runes s <> []) by (rewrite E; discriminate).
  destruct (exists_last Hne) as [rs [r Hr]]. rewrite Hr.
  rewrite app_length. cbn [length].
  destruct (Z.ltb_spec 0 (Z.of_nat (length rs + 1))); [|lia].
  replace (Z.of_nat (length rs + 1) - 1)%Z with (Z.of_nat (length rs)) by lia.
  destruct (Z.ltb_spec (Z.of_nat (length rs)) 0); [lia|].
  destruct (Z.ltb_spec (Z.of_nat (length rs)) (Z.of_nat (length rs + 1))); [|lia].
  cbn [bind]. rewrite Nat2Z.id, app_nth2, Nat.sub_diag by lia. cbn [nth].
  rewrite map_app. cbn [map]. rewrite last_last. reflexivity.
Qed.

(* on well-formed text the first / last character, however many bytes it has *)
Lemma first_string_wf : forall (x : value) (r : N) (rest : str),
  vv x = VStr (encode_rune r ++ rest) -> scalar r ->
  first_body x = Ok (as_value (VStr (encode_rune r))).
Proof.
  intros x r rest Hx Hr. rewrite (first_string x _ Hx). unfold chars.
  rewrite runes_encode by exact Hr. reflexivity.
Qed.

Lemma last_string_wf : forall (x : value) (rs : list N) (r : N),
  vv x = VStr (of_runes rs ++ encode_rune r) -> Forall scalar rs -> scalar r ->
  last_body x = Ok (as_value (VStr (encode_rune r))).
Proof.
  intros x rs r Hx Hrs Hr. rewrite (last_string x _ Hx). unfold chars.
  rewrite runes_of_runes by exact Hrs.
  pose proof (runes_encode r [] Hr) as E. rewrite app_nil_r in E. rewrite E.
  change (runes []) with (@nil N). rewrite map_app. cbn [map]. rewrite last_last. reflexivity.
Qed.

(* nothing to take: the empty string, the empty list, and anything that is not a sequence *)
Lemma first_last_empty : forall (x : value),
  (val_len (vv x) = 0%Z \/ can_slice (vv x) = false) ->
  first_body x = Ok (as_value (VStr [])) /\ last_body x = Ok (as_value (VStr [])).
Proof.
  intros x [H|H]; unfold first_body, last_body; rewrite H.
  - rewrite Bool.andb_false_r. split; reflexivity.
  - split; reflexivity.
Qed.

(* ------------------------------------------------------------------ *)
(* Well-formed text: characters, fields, truncation, split on ""       *)

Lemma chars_wf : forall rs, Forall scalar rs -> chars (of_runes rs) = map encode_rune rs.
Proof. intros rs H. unfold chars. rewrite runes_wf by exact H. reflexivity. Qed.

Lemma of_runes_cons : forall r rs, of_runes (r :: rs) = encode_rune r ++ of_runes rs.
Proof. reflexivity. Qed.

Lemma of_runes_nonempty : forall r rs, exists b t, of_runes (r :: rs) = b :: t.
Proof.
  intros r rs. rewrite of_runes_cons. destruct (encode_rune_nonempty r) as [b [t E]]. rewrite E.
  eexists; eexists; reflexivity.
Qed.

Lemma fields_ws_skip_word : forall t cur s,
  fields_ws (length t) false cur (t ++ s) = fields_ws 0 false (rev t ++ cur) s.
Proof.
  induction t as [|c t IH]; intros cur s; [reflexivity|].
  cbn [length app fields_ws]. rewrite IH. cbn [rev]. rewrite <- app_assoc. reflexivity.
Qed.

Lemma fields_ws_skip_space : forall t cur s,
  fields_ws (length t) true cur (t ++ s) = fields_ws 0 true cur s.
Proof. induction t as [|c t IH]; intros cur s; [reflexivity|]. cbn [length app fields_ws]. apply IH. Qed.

Lemma rev_nonnil : forall (c : N) cur, exists b t, rev (c :: cur) = b :: t.
Proof.
  intros c cur. destruct (rev (c :: cur)) as [|b t] eqn:E; [|eexists; eexists; reflexivity].
  apply (f_equal (@length N)) in E. rewrite rev_length in E. discriminate.
Qed.

Lemma fields_ws_wf : forall rs, Forall scalar rs -> forall cur,
  fields_ws 0 false cur (of_runes rs) =
  match split_on is_space_rune rs with
  | h :: tl => match rev cur ++ of_runes h with
               | [] => map of_runes (filter nonempty tl)
               | b :: t => (b :: t) :: map of_runes (filter nonempty tl)
               end
  | [] => []
  end.
Proof.
  intros rs H. induction H as [|r rs Hr Hrs IH]; intro cur.
  - cbn [of_runes flat_map fields_ws split_on filter map]. rewrite app_nil_r.
    destruct cur as [|c cur]; [reflexivity|].
    destruct (rev_nonnil c cur) as [b [t E]]. rewrite E. reflexivity.
  - rewrite of_runes_cons. pose proof (decode_encode r (of_runes rs) Hr) as Hd.
    destruct (encode_rune_nonempty r) as [b [t Et]]. rewrite Et in *.
    cbn [app] in *. cbn [fields_ws split_on]. rewrite Hd. cbn [length Nat.sub]. rewrite Nat.sub_0_r.
    pose proof (split_on_nonnil is_space_rune rs) as Hn.
    destruct (is_space_rune r).
    + rewrite fields_ws_skip_space, fields_ws_inws, (IH []).
      destruct (split_on is_space_rune rs) as [|h tl]; [contradiction|].
      cbn [rev app of_runes flat_map]. rewrite app_nil_r. cbn [filter].
      assert (Hh : match of_runes h with
                   | [] => map of_runes (filter nonempty tl)
                   | b0 :: t0 => (b0 :: t0) :: map of_runes (filter nonempty tl)
                   end = map of_runes (if nonempty h then h :: filter nonempty tl else filter nonempty tl)).
      { destruct h as [|r0 h]; [reflexivity|]. cbn [nonempty map].
        destruct (of_runes_nonempty r0 h) as [b0 [t0 E0]]. rewrite E0. reflexivity. }
      fold (of_runes h). rewrite Hh.
      destruct cur as [|c cur]; [reflexivity|].
      destruct (rev_nonnil c cur) as [b1 [t1 E1]]. rewrite E1. reflexivity.
    + rewrite fields_ws_skip_word, (IH (rev t ++ b :: cur)).
      destruct (split_on is_space_rune rs) as [|h tl]; [contradiction|].
      rewrite rev_app_distr, rev_involutive. cbn [rev]. rewrite of_runes_cons, Et.
      rewrite <- !app_assoc. reflexivity.
Qed.

Lemma fields_wf : forall rs, Forall scalar rs ->
  fields (of_runes rs) = map of_runes (ws_fields is_space_rune rs).
Proof.
  intros rs H. unfold fields, ws_fields. rewrite fields_ws_wf by exact H.
  pose proof (split_on_nonnil is_space_rune rs) as Hn.
  destruct (split_on is_space_rune rs) as [|h tl]; [contradiction|].
  cbn [rev app filter]. destruct h as [|r0 h]; [reflexivity|].
  cbn [nonempty map]. destruct (of_runes_nonempty r0 h) as [b0 [t0 E0]]. rewrite E0. reflexivity.
Qed.

Lemma truncatechars_wf : forall (x p : value) (rs : list N) (n : Z),
  to_string (vv x) = Some (of_runes rs) -> Forall scalar rs -> to_integer (vv p) = Some n ->
  truncatechars_body x p = Ok (as_value (VStr (of_runes (truncchars_ref rs n)))).
Proof.
  intros x p rs n Hx Hrs Hp. destruct (truncatechars_all x p _ n Hx Hp) as [H1 H2].
  destruct (Z.le_gt_cases n 0) as [Hn|Hn].
  - rewrite H1 by exact Hn. unfold truncchars_ref. destruct (Z.leb_spec n 0); [reflexivity|lia].
  - rewrite H2 by lia. rewrite runes_wf by exact Hrs. reflexivity.
Qed.

(* split on the empty separator (Go's strings.Split; Python refuses it): the characters *)
Lemma rune_chunks_skip : forall t cur s,
  rune_chunks (length t) cur (t ++ s) = rune_chunks 0 (rev t ++ cur) s.
Proof.
  induction t as [|c t IH]; intros cur s; [reflexivity|].
  cbn [length app rune_chunks]. rewrite IH. cbn [rev]. rewrite <- app_assoc. reflexivity.
Qed.

Lemma rune_chunks_wf : forall rs, Forall scalar rs -> forall cur,
  rune_chunks 0 cur (of_runes rs) =
  match cur with [] => map encode_rune rs | _ => rev cur :: map encode_rune rs end.
Proof.
  intros rs H. induction H as [|r rs Hr Hrs IH]; intro cur; [reflexivity|].
  rewrite of_runes_cons. pose proof (decode_encode r (of_runes rs) Hr) as Hd.
  destruct (encode_rune_nonempty r) as [b [t Et]]. rewrite Et in *.
  cbn [app] in *. cbn [rune_chunks]. rewrite Hd. cbn [length Nat.sub]. rewrite Nat.sub_0_r.
  rewrite rune_chunks_skip, IH. cbn [map]. rewrite Et.
  assert (E : rev (rev t ++ [b]) = b :: t) by (rewrite rev_app_distr, rev_involutive; reflexivity).
  destruct (rev t ++ [b]) as [|c0 l0] eqn:E0.
  - apply (f_equal (@length N)) in E0. rewrite app_length in E0. cbn [length] in E0. lia.
  - rewrite E. destruct cur; reflexivity.
Qed.

Lemma split_nosep_wf : forall (x p : value) (rs : list N),
  to_string (vv x) = Some (of_runes rs) -> Forall scalar rs -> to_string (vv p) = Some [] ->
  split_body x p = Ok (as_value (VList (map VStr (map encode_rune rs)))).
Proof.
  intros x p rs Hx Hrs Hp. unfold split_body. rewrite (str_of_some x _ Hx), (str_of_some p _ Hp).
  cbn [bind split_any]. rewrite rune_chunks_wf by exact Hrs. reflexivity.
Qed.

(* ------------------------------------------------------------------ *)
(* The statements on well-formed text, put together                    *)

Lemma truncatewords_wf : forall (x p : value) (rs : list N) (n : Z),
  to_string (vv x) = Some (of_runes rs) -> Forall scalar rs -> to_integer (vv p) = Some n ->
  truncatewords_body x p
  = Ok (as_value (VStr (py_join [32] (truncwords_ref (map of_runes (ws_fields is_space_rune rs)) n)))).
Proof.
  intros x p rs n Hx Hrs Hp. rewrite (truncatewords_fields x p _ n Hx Hp).
  rewrite fields_wf by exact Hrs. reflexivity.
Qed.

Lemma wordwrap_wf : forall (x p : value) (rs : list N) (w : Z),
  to_string (vv x) = Some (of_runes rs) -> Forall scalar rs -> to_integer (vv p) = Some w ->
  ((w <= 0)%Z -> wordwrap_body x p = Ok x) /\
  ((0 < w)%Z -> exists lines,
     wordwrap_body x p = Ok (as_value (VStr (py_join [10] (map (py_join [32]) lines)))) /\
     wrapped (Z.to_nat w) (map of_runes (ws_fields is_space_rune rs)) lines).
Proof.
  intros x p rs w Hx Hrs Hp. destruct (wordwrap_fields x p _ w Hx Hp) as [H1 H2].
  split; [exact H1|]. intro Hw. destruct (H2 Hw) as [lines [Ha Hb]].
  exists lines. split; [exact Ha|]. rewrite fields_wf in Hb by exact Hrs. exact Hb.
Qed.

Lemma make_list_wf : forall (x : value) (rs : list N),
  to_string (vv x) = Some (of_runes rs) -> Forall scalar rs ->
  make_list_body x = Ok (as_value (VList (map VStr (map encode_rune rs)))).
Proof.
  intros x rs Hx Hrs. rewrite (make_list_chars x _ Hx). rewrite chars_wf by exact Hrs. reflexivity.
Qed.

Lemma cut_python : forall (x p : value) (s o : str),
  to_string (vv x) = Some s -> to_string (vv p) = Some o -> o <> [] ->
  exists r, cut_body x p = Ok (as_value (VStr r)) /\ cut_rel o s r.
Proof.
  intros x p s o Hx Hp Hne. exists (cut_str s o). split; [apply cut_filter; assumption|].
  apply (cut_rel_is_cut_str o Hne). reflexivity.
Qed.

Lemma cut_rel_fun : forall o s r1 r2, o <> [] -> cut_rel o s r1 -> cut_rel o s r2 -> r1 = r2.
Proof.
  intros o s r1 r2 Hne H1 H2.
  apply (cut_rel_is_cut_str o Hne) in H1. apply (cut_rel_is_cut_str o Hne) in H2. congruence.
Qed.

Lemma cut_one_byte : forall (x p : value) (s : str) (c : N),
  to_string (vv x) = Some s -> to_string (vv p) = Some [c] ->
  cut_body x p = Ok (as_value (VStr (filter (fun b => negb (b =? c)) s))).
Proof. intros x p s c Hx Hp. rewrite (cut_filter x p s [c] Hx Hp). rewrite cut_byte. reflexivity. Qed.

Lemma cut_nothing : forall (x p : value) (s o : str),
  to_string (vv x) = Some s -> to_string (vv p) = Some o -> ~ occurs o s \/ o = [] ->
  cut_body x p = Ok (as_value (VStr s)).
Proof.
  intros x p s o Hx Hp H. rewrite (cut_filter x p s o Hx Hp).
  destruct o as [|c o]; [reflexivity|]. destruct H as [H|H]; [|discriminate].
  rewrite cut_absent; [reflexivity|discriminate|exact H].
Qed.
