(* Proofs for properties C09 (branching and looping tags) and C13 (macros) over the executor
   model Model/Exec.v.  The big mutual fixpoint is never unfolded by [simpl]/[cbn]: every
   lemma named [*_S*] is a one-step unfolding proved by conversion, and everything else
   rewrites with those.  Parts: (1) if / ifequal / firstof, (2) for, (3) cycle / ifchanged,
   (4) macro calls, (5) runaway recursion and import, (6) worked corollaries. *)
From PV Require Import Model.Exec Spec.SpecFlow.
From PV Require Import gen.Tables.
From Coq Require Import Lia Sorting.Permutation Sorting.Sorted.
Open Scope N_scope.

(* ================= (1) if / ifequal / firstof ================= *)
(* ---------- generic list helpers ---------- *)
Lemma skipn_cons_inv : forall {A} (l : list A) i c rest,
  skipn i l = c :: rest ->
  nth_error l i = Some c /\ skipn (S i) l = rest /\ length l = (i + S (length rest))%nat.
Proof.
  intros A l; induction l as [|x l IH]; intros i c rest H.
  - destruct i; discriminate.
  - destruct i as [|i].
    + cbn in H. inversion H; subst. repeat split; reflexivity.
    + cbn [skipn] in H. destruct (IH _ _ _ H) as (H1 & H2 & H3).
      repeat split; [exact H1|exact H2|cbn; lia].
Qed.

Lemma skipn_nil_inv : forall {A} (l : list A) i, skipn i l = [] -> nth_error l i = None.
Proof.
  intros A l; induction l as [|x l IH]; intros i H.
  - destruct i; reflexivity.
  - destruct i as [|i]; [discriminate|]. cbn. apply IH. exact H.
Qed.

Lemma Forall2_weaken : forall {A B} (P Q : A -> B -> Prop) l l',
  (forall a b, P a b -> Q a b) -> Forall2 P l l' -> Forall2 Q l l'.
Proof. intros A B P Q l l' H HF; induction HF; constructor; auto. Qed.

Lemma Forall2_cons_inv : forall {A B} (P : A -> B -> Prop) a b l l',
  Forall2 P (a :: l) (b :: l') -> P a b /\ Forall2 P l l'.
Proof. intros A B P a b l l' H; inversion H; auto. Qed.

Lemma Forall2_len : forall {A B} (P : A -> B -> Prop) l l', Forall2 P l l' -> length l = length l'.
Proof. intros A B P l l' H; induction H; cbn; congruence. Qed.

Lemma first_true_some_nonnil : forall bs k, first_true bs = Some k -> bs <> [].
Proof. intros [|b bs] k H; [discriminate|discriminate]. Qed.

Section FlowIf.
  Variable se : senv.
  Variable globals : list (str * cval).

  (* ---------- one-step unfoldings (by conversion) ---------- *)
  Lemma exec_node_S_if : forall f st conds ws,
    exec_node se globals (S f) st (NIf conds ws) = exec_if se globals f st conds ws 0.
  Proof. reflexivity. Qed.

  Lemma exec_if_S : forall f st conds ws i,
    exec_if se globals (S f) st conds ws i =
      match nth_error conds i with
      | None => xok [] st
      | Some c =>
          match eval se globals f st c with
          | Ok (v, st1) =>
              if is_true (vv v) then
                match nth_error ws i with Some w => exec_nodes se globals f st1 w | None => ([], Panic 97) end
              else if Nat.eqb (length conds) (S i) && Nat.ltb (S i) (length ws) then
                match nth_error ws (S i) with Some w => exec_nodes se globals f st1 w | None => ([], Panic 98) end
              else exec_if se globals f st1 conds ws (S i)
          | other => xfail [] other
          end
      end.
  Proof. reflexivity. Qed.

  Lemma exec_node_S_firstof : forall f st args,
    exec_node se globals (S f) st (NFirstof args) = exec_firstof se globals f st args.
  Proof. reflexivity. Qed.

  Lemma exec_firstof_S_nil : forall f st, exec_firstof se globals (S f) st [] = xok [] st.
  Proof. reflexivity. Qed.

  Lemma exec_firstof_S_cons : forall f st a rest,
    exec_firstof se globals (S f) st (a :: rest) =
      match eval se globals f st a with
      | Ok (v, st1) =>
          if is_true (vv v) then
            match top_frame st1 with
            | Ok fr =>
                match to_string (vv v) with
                | None => ([], Unmod)
                | Some s => if f_auto fr && negb (filter_applied [115; 97; 102; 101] a)
                            then xok (filter_escape s) st1 else xok s st1
                end
            | other => xfail [] other
            end
          else exec_firstof se globals f st1 rest
      | other => xfail [] other
      end.
  Proof. reflexivity. Qed.

  Lemma exec_node_S_ifequal : forall f st neg a b t eb,
    exec_node se globals (S f) st (NIfequal neg a b t eb) =
      match eval se globals f st a with
      | Ok (x, st1) =>
          match eval se globals f st1 b with
          | Ok (y, st2) =>
              match equal_value_to (vv x) (vv y) with
              | None => ([], Unmod)
              | Some eq =>
                  if Bool.eqb eq (negb neg) then exec_nodes se globals f st2 t
                  else match eb with Some e => exec_nodes se globals f st2 e | None => xok [] st2 end
              end
          | other => xfail [] other
          end
      | other => xfail [] other
      end.
  Proof. reflexivity. Qed.

  (* ---------- a common fuel bound for a list of pure evaluations ---------- *)
  Definition evals_from (f0 : nat) (st : mstate) (e : expr) (v : value) : Prop :=
    forall f, (f0 <= f)%nat -> eval se globals f st e = Ok (v, st).

  Lemma evals_common : forall st es vs,
    Forall2 (evals_pure se globals st) es vs -> exists f0, Forall2 (evals_from f0 st) es vs.
  Proof.
    intros st es vs H; induction H as [|e v es vs [f1 H1] _ [f2 IH]].
    - exists O; constructor.
    - exists (Nat.max f1 f2); constructor.
      + intros f Hf; apply H1; lia.
      + eapply Forall2_weaken; [|exact IH]. intros a b Hab f Hf; apply Hab; lia.
  Qed.

  (* ---------- if ---------- *)
  Lemma exec_if_first_true : forall st conds ws f0 vs i k,
    Forall2 (evals_from f0 st) (firstn (length vs) (skipn i conds)) vs ->
    first_true (map truth vs) = Some k ->
    forall f, (f0 <= f)%nat ->
      exec_if se globals (S k + f) st conds ws i =
        match nth_error ws (i + k) with
        | Some w => exec_nodes se globals f st w
        | None => ([], Panic 97)
        end.
  Proof.
    intros st conds ws f0 vs; induction vs as [|v vs IH]; intros i k HF Hk f Hf.
    - discriminate.
    - cbn [length firstn] in HF.
      destruct (skipn i conds) as [|c rest] eqn:Hsk; [inversion HF|].
      destruct (skipn_cons_inv _ _ _ _ Hsk) as (Hnth & Hsk' & Hlen).
      destruct (Forall2_cons_inv _ _ _ _ _ HF) as [Hc HF'].
      cbn [map first_true] in Hk. unfold truth at 1 in Hk.
      change (S k + f)%nat with (S (k + f)). rewrite exec_if_S, Hnth, (Hc (k + f)%nat) by lia.
      destruct (is_true (vv v)) eqn:Ht.
      + inversion Hk; subst k. rewrite Nat.add_0_r. reflexivity.
      + destruct (first_true (map truth vs)) as [k'|] eqn:Hk'; [|discriminate].
        cbn in Hk; inversion Hk; subst k.
        assert (Hne : vs <> []).
        { intro E; subst vs; discriminate. }
        assert (Hrest : rest <> []).
        { destruct vs as [|v' vs']; [congruence|]. cbn in HF'. destruct rest; [inversion HF'|discriminate]. }
        assert (Hcond : Nat.eqb (length conds) (S i) = false).
        { apply Nat.eqb_neq. destruct rest; [congruence|]. cbn in Hlen. lia. }
        rewrite Hcond. cbn [andb].
        rewrite <- Hsk' in HF'.
        specialize (IH (S i) k' HF' eq_refl f Hf).
        change (S k' + f)%nat with (S (k' + f)) in *. rewrite IH.
        replace (S i + k')%nat with (i + S k')%nat by lia. reflexivity.
  Qed.

  Lemma prefix_evals_common : forall st es vs,
    prefix_evals se globals st es vs ->
    exists f0, Forall2 (evals_from f0 st) (firstn (length vs) (skipn 0 es)) vs.
  Proof. intros st es vs H. apply evals_common. exact H. Qed.

  Lemma if_first_true : forall st conds ws vs k w,
    prefix_evals se globals st conds vs ->
    first_true (map truth vs) = Some k ->
    nth_error ws k = Some w ->
    exists f0, forall f, (f0 <= f)%nat ->
      exec_node se globals (S (S k) + f) st (NIf conds ws) = exec_nodes se globals f st w.
  Proof.
    intros st conds ws vs k w HP Hk Hw.
    destruct (prefix_evals_common _ _ _ HP) as [f0 HF].
    exists f0; intros f Hf.
    change (S (S k) + f)%nat with (S (S k + f)). rewrite exec_node_S_if.
    rewrite (exec_if_first_true st conds ws f0 vs 0 k HF Hk f Hf). cbn [Nat.add]. rewrite Hw. reflexivity.
  Qed.

  (* a true condition without a wrapper: cannot come out of the parser; the model says so *)
  Lemma if_first_true_missing : forall st conds ws vs k,
    prefix_evals se globals st conds vs ->
    first_true (map truth vs) = Some k ->
    nth_error ws k = None ->
    exists f0, forall f, (f0 <= f)%nat ->
      exec_node se globals f st (NIf conds ws) = ([], Panic 97).
  Proof.
    intros st conds ws vs k HP Hk Hw.
    destruct (prefix_evals_common _ _ _ HP) as [f0 HF].
    exists (S (S k) + f0)%nat; intros f Hf.
    replace f with (S (S k + (f - S (S k))))%nat by lia. rewrite exec_node_S_if.
    rewrite (exec_if_first_true st conds ws f0 vs 0 k HF Hk) by lia. cbn [Nat.add]. rewrite Hw. reflexivity.
  Qed.

  Lemma first_true_none_cons : forall v vs,
    first_true (map truth (v :: vs)) = None -> is_true (vv v) = false /\ first_true (map truth vs) = None.
  Proof.
    intros v vs H. cbn [map first_true] in H. unfold truth at 1 in H.
    destruct (is_true (vv v)); [discriminate|]. split; [reflexivity|].
    destruct (first_true (map truth vs)); [discriminate|reflexivity].
  Qed.

  Lemma exec_if_else : forall st conds ws f0 w vs i,
    Forall2 (evals_from f0 st) (skipn i conds) vs ->
    first_true (map truth vs) = None ->
    vs <> [] ->
    nth_error ws (length conds) = Some w ->
    forall f, (f0 <= f)%nat ->
      exec_if se globals (length vs + f) st conds ws i = exec_nodes se globals f st w.
  Proof.
    intros st conds ws f0 w vs; induction vs as [|v vs IH]; intros i HF Hk Hne Hw f Hf; [congruence|].
    destruct (skipn i conds) as [|c rest] eqn:Hsk; [inversion HF|].
    destruct (skipn_cons_inv _ _ _ _ Hsk) as (Hnth & Hsk' & Hlen).
    destruct (Forall2_cons_inv _ _ _ _ _ HF) as [Hc HF'].
    destruct (first_true_none_cons _ _ Hk) as [Ht Hk'].
    cbn [length]. change (S (length vs) + f)%nat with (S (length vs + f)).
    rewrite exec_if_S, Hnth, (Hc (length vs + f)%nat) by lia. rewrite Ht.
    assert (Hlw : (length conds < length ws)%nat) by (apply nth_error_Some; congruence).
    destruct vs as [|v' vs'].
    - assert (Er : rest = []) by (inversion HF'; reflexivity). rewrite Er in Hlen. cbn [length] in Hlen.
      assert (El : length conds = S i) by lia. rewrite El in Hw, Hlw |- *.
      rewrite Nat.eqb_refl. cbn [andb]. destruct (Nat.ltb_spec (S i) (length ws)); [|lia].
      rewrite Hw. reflexivity.
    - assert (Hcond : Nat.eqb (length conds) (S i) = false).
      { apply Nat.eqb_neq. destruct rest as [|c' rest']; [inversion HF'|]. cbn in Hlen. lia. }
      rewrite Hcond. cbn [andb]. rewrite <- Hsk' in HF'.
      apply IH; auto. discriminate.
  Qed.

  Lemma exec_if_none : forall st conds ws f0 vs i,
    Forall2 (evals_from f0 st) (skipn i conds) vs ->
    first_true (map truth vs) = None ->
    nth_error ws (length conds) = None ->
    forall f, (f0 <= f)%nat ->
      exec_if se globals (S (length vs) + f) st conds ws i = xok [] st.
  Proof.
    intros st conds ws f0 vs; induction vs as [|v vs IH]; intros i HF Hk Hw f Hf.
    - inversion HF as [Hsk|]. symmetry in Hsk. apply skipn_nil_inv in Hsk.
      cbn [length Nat.add]. rewrite exec_if_S, Hsk. reflexivity.
    - destruct (skipn i conds) as [|c rest] eqn:Hsk; [inversion HF|].
      destruct (skipn_cons_inv _ _ _ _ Hsk) as (Hnth & Hsk' & Hlen).
      destruct (Forall2_cons_inv _ _ _ _ _ HF) as [Hc HF'].
      destruct (first_true_none_cons _ _ Hk) as [Ht Hk'].
      cbn [length]. change (S (S (length vs)) + f)%nat with (S (S (length vs) + f)).
      rewrite exec_if_S, Hnth, (Hc (S (length vs) + f)%nat) by lia. rewrite Ht.
      assert (Hlw : (length ws <= length conds)%nat) by (apply nth_error_None; exact Hw).
      assert (Hcond : Nat.eqb (length conds) (S i) && Nat.ltb (S i) (length ws) = false).
      { destruct (Nat.eqb_spec (length conds) (S i)) as [E|E]; [|reflexivity].
        cbn [andb]. apply Nat.ltb_ge. lia. }
      rewrite Hcond. rewrite <- Hsk' in HF'. apply IH; auto.
  Qed.

  Lemma if_else : forall st conds ws vs w,
    Forall2 (evals_pure se globals st) conds vs ->
    conds <> [] ->
    first_true (map truth vs) = None ->
    nth_error ws (length conds) = Some w ->
    exists f0, forall f, (f0 <= f)%nat ->
      exec_node se globals (S (length conds) + f) st (NIf conds ws) = exec_nodes se globals f st w.
  Proof.
    intros st conds ws vs w HP Hne Hk Hw.
    destruct (evals_common _ _ _ HP) as [f0 HF].
    exists f0; intros f Hf.
    change (S (length conds) + f)%nat with (S (length conds + f)). rewrite exec_node_S_if.
    rewrite (Forall2_len _ _ _ HF).
    apply (exec_if_else st conds ws f0 w vs 0); auto.
    intro E; subst vs. inversion HF; subst. congruence.
  Qed.

  Lemma if_none : forall st conds ws vs,
    Forall2 (evals_pure se globals st) conds vs ->
    first_true (map truth vs) = None ->
    nth_error ws (length conds) = None ->
    exists f0, forall f, (f0 <= f)%nat ->
      exec_node se globals f st (NIf conds ws) = xok [] st.
  Proof.
    intros st conds ws vs HP Hk Hw.
    destruct (evals_common _ _ _ HP) as [f0 HF].
    exists (S (S (length vs)) + f0)%nat; intros f Hf.
    replace f with (S (S (length vs) + (f - S (S (length vs)))))%nat by lia.
    rewrite exec_node_S_if. apply (exec_if_none st conds ws f0 vs 0); auto. lia.
  Qed.

  (* ---------- ifequal / ifnotequal ---------- *)
  Lemma ifequal_complementary : forall fuel st a b t e,
    exec_node se globals fuel st (NIfequal false a b t (Some e)) =
    exec_node se globals fuel st (NIfequal true a b e (Some t)).
  Proof.
    intros [|f] st a b t e; [reflexivity|].
    rewrite !exec_node_S_ifequal.
    destruct (eval se globals f st a) as [[x st1]| | | |]; try reflexivity.
    destruct (eval se globals f st1 b) as [[y st2]| | | |]; try reflexivity.
    destruct (equal_value_to (vv x) (vv y)) as [[|]|]; reflexivity.
  Qed.

  (* which branch: ifequal renders [t] exactly when the values are equal, ifnotequal when not *)
  Lemma ifequal_branch : forall f st neg a b t eb x st1 y st2 eq,
    eval se globals f st a = Ok (x, st1) ->
    eval se globals f st1 b = Ok (y, st2) ->
    equal_value_to (vv x) (vv y) = Some eq ->
    exec_node se globals (S f) st (NIfequal neg a b t eb) =
      if xorb eq neg then exec_nodes se globals f st2 t
      else match eb with Some e => exec_nodes se globals f st2 e | None => xok [] st2 end.
  Proof.
    intros f st neg a b t eb x st1 y st2 eq Ha Hb He.
    rewrite exec_node_S_ifequal, Ha, Hb, He. destruct eq, neg; reflexivity.
  Qed.

  (* ---------- firstof ---------- *)
  Lemma exec_firstof_first_true : forall st f0 fr args vs k a v s,
    top_frame st = Ok fr ->
    Forall2 (evals_from f0 st) (firstn (length vs) args) vs ->
    first_true (map truth vs) = Some k ->
    nth_error args k = Some a -> nth_error vs k = Some v ->
    to_string (vv v) = Some s ->
    forall f, (f0 <= f)%nat ->
      exec_firstof se globals (S k + f) st args = xok (firstof_text (f_auto fr) a s) st.
  Proof.
    intros st f0 fr args; induction args as [|a0 args IH]; intros vs k a v s Hfr HF Hk Ha Hv Hs f Hf.
    - destruct k; discriminate.
    - destruct vs as [|v0 vs]; [discriminate|].
      cbn [length firstn] in HF. destruct (Forall2_cons_inv _ _ _ _ _ HF) as [Hc HF'].
      cbn [map first_true] in Hk. unfold truth at 1 in Hk.
      change (S k + f)%nat with (S (k + f)). rewrite exec_firstof_S_cons, (Hc (k + f)%nat) by lia.
      destruct (is_true (vv v0)) eqn:Ht.
      + inversion Hk; subst k. cbn in Ha, Hv. inversion Ha; inversion Hv; subst.
        rewrite Hfr, Hs. unfold firstof_text, n_safe.
        destruct (f_auto fr && negb (filter_applied [115; 97; 102; 101] a)); reflexivity.
      + destruct (first_true (map truth vs)) as [k'|] eqn:Hk'; [|discriminate].
        cbn in Hk; inversion Hk; subst k. cbn in Ha, Hv.
        change (S k' + f)%nat with (S (k' + f)) in IH.
        apply (IH vs k' a v s); auto.
  Qed.

  Lemma firstof_first_true : forall st fr args vs k a v s,
    top_frame st = Ok fr ->
    prefix_evals se globals st args vs ->
    first_true (map truth vs) = Some k ->
    nth_error args k = Some a -> nth_error vs k = Some v ->
    to_string (vv v) = Some s ->
    exists f0, forall f, (f0 <= f)%nat ->
      exec_node se globals f st (NFirstof args) = xok (firstof_text (f_auto fr) a s) st.
  Proof.
    intros st fr args vs k a v s Hfr HP Hk Ha Hv Hs.
    destruct (evals_common _ _ _ HP) as [f0 HF].
    exists (S (S k) + f0)%nat; intros f Hf.
    replace f with (S (S k + (f - S (S k))))%nat by lia. rewrite exec_node_S_firstof.
    apply (exec_firstof_first_true st f0 fr args vs k a v s); auto. lia.
  Qed.

  Lemma exec_firstof_none : forall st f0 args vs,
    Forall2 (evals_from f0 st) args vs ->
    first_true (map truth vs) = None ->
    forall f, (f0 <= f)%nat ->
      exec_firstof se globals (S (length args) + f) st args = xok [] st.
  Proof.
    intros st f0 args vs HF; induction HF as [|a v args vs Hc HF IH]; intros Hk f Hf.
    - reflexivity.
    - destruct (first_true_none_cons _ _ Hk) as [Ht Hk'].
      cbn [length]. change (S (S (length args)) + f)%nat with (S (S (length args) + f)).
      rewrite exec_firstof_S_cons, (Hc (S (length args) + f)%nat) by lia. rewrite Ht.
      apply IH; auto.
  Qed.

  Lemma firstof_none : forall st args vs,
    Forall2 (evals_pure se globals st) args vs ->
    first_true (map truth vs) = None ->
    exists f0, forall f, (f0 <= f)%nat ->
      exec_node se globals f st (NFirstof args) = xok [] st.
  Proof.
    intros st args vs HP Hk.
    destruct (evals_common _ _ _ HP) as [f0 HF].
    exists (S (S (length args)) + f0)%nat; intros f Hf.
    replace f with (S (S (length args) + (f - S (S (length args)))))%nat by lia.
    rewrite exec_node_S_firstof. apply (exec_firstof_none st f0 args vs); auto. lia.
  Qed.
End FlowIf.

(* ================= (2) for ================= *)
(* ---------- names and contexts ---------- *)
Lemma str_eqb_spec : forall a b, reflect (a = b) (str_eqb a b).
Proof.
  induction a as [|x a IH]; intros [|y b]; cbn; try (constructor; congruence).
  destruct (N.eqb_spec x y) as [E|E]; cbn.
  - destruct (IH b) as [E'|E']; constructor; congruence.
  - constructor; congruence.
Qed.
Lemma str_eqb_refl : forall a, str_eqb a a = true.
Proof. intros a; destruct (str_eqb_spec a a); congruence. Qed.
Lemma str_eqb_neq : forall a b, a <> b -> str_eqb a b = false.
Proof. intros a b H; destruct (str_eqb_spec a b); congruence. Qed.

Lemma ctx_get_del : forall k k' m,
  ctx_get k (ctx_del k' m) = if str_eqb k k' then None else ctx_get k m.
Proof.
  intros k k' m; induction m as [|[k0 v0] m IH]; cbn [ctx_del ctx_get].
  - destruct (str_eqb k k'); reflexivity.
  - destruct (str_eqb_spec k' k0) as [E|E].
    + subst k0. rewrite IH. destruct (str_eqb k k'); reflexivity.
    + cbn [ctx_get]. rewrite IH.
      destruct (str_eqb_spec k k0) as [E1|E1]; [|reflexivity].
      subst k0. rewrite str_eqb_neq by congruence. reflexivity.
Qed.

Lemma ctx_get_set : forall k k' v m,
  ctx_get k (ctx_set k' v m) = if str_eqb k k' then Some v else ctx_get k m.
Proof.
  intros k k' v m; unfold ctx_set; cbn [ctx_get]. rewrite ctx_get_del.
  destruct (str_eqb k k'); reflexivity.
Qed.
Lemma ctx_get_set_same : forall k v m, ctx_get k (ctx_set k v m) = Some v.
Proof. intros; rewrite ctx_get_set, str_eqb_refl; reflexivity. Qed.
Lemma ctx_get_set_other : forall k k' v m, k <> k' -> ctx_get k (ctx_set k' v m) = ctx_get k m.
Proof. intros; rewrite ctx_get_set, str_eqb_neq by assumption; reflexivity. Qed.

(* ---------- what a for tag iterates over ---------- *)
Lemma iter_list_in_order : forall l,
  iter_items (VList l) false false = Ok (Some (map plain_item l)).
Proof. reflexivity. Qed.
Lemma iter_list_reversed : forall l,
  iter_items (VList l) true false = Ok (Some (map plain_item (rev l))).
Proof. reflexivity. Qed.
Lemma iter_map_key_order : forall m reversed,
  iter_items (VMap m) reversed true = Ok (Some (map kv_item (if reversed then rev m else m))).
Proof. intros m [|]; unfold iter_items; rewrite Bool.orb_true_r; reflexivity. Qed.
Lemma iter_map_small : forall m reversed, (length m <= 1)%nat ->
  iter_items (VMap m) reversed false = Ok (Some (map kv_item m)).
Proof.
  intros m r H; unfold iter_items. destruct (Nat.leb_spec (length m) 1); [|lia]. reflexivity.
Qed.
(* Go's map order is random: an unsorted loop over a map with several keys is outside the model *)
Lemma iter_map_unsorted_unmodelled : forall m reversed, (1 < length m)%nat ->
  iter_items (VMap m) reversed false = Unmod.
Proof.
  intros m r H; unfold iter_items. destruct (Nat.leb_spec (length m) 1); [lia|]. reflexivity.
Qed.
Lemma iter_string_runes : forall s,
  iter_items (VStr s) false false = Ok (Some (map (fun r => plain_item (VStr (encode_rune r))) (runes s))).
Proof. reflexivity. Qed.
Lemma iter_not_iterable : forall v reversed sorted,
  match v with VNil | VBool _ | VInt _ | VFloat _ | VStruct _ => True | _ => False end ->
  iter_items v reversed sorted = Ok None.
Proof. intros v r sd H; destruct v; try contradiction; reflexivity. Qed.

(* insertion sort, generically *)
Section Isort.
  Variable A : Type.
  Variable lt : A -> A -> bool.
  Definition le_of (a b : A) : Prop := lt b a = false.
  Hypothesis lt_asym : forall a b, lt a b = true -> lt b a = false.
  Hypothesis le_trans : forall a b c, le_of a b -> le_of b c -> le_of a c.

  Fixpoint ins (x : A) (l : list A) : list A :=
    match l with
    | [] => [x]
    | y :: l' => if lt y x then y :: ins x l' else x :: l
    end.

  Lemma ins_perm : forall x l, Permutation (x :: l) (ins x l).
  Proof.
    intros x l; induction l as [|y l IH]; cbn [ins]; [reflexivity|].
    destruct (lt y x); [|reflexivity].
    eapply perm_trans; [apply perm_swap|]. apply perm_skip. exact IH.
  Qed.

  Lemma ins_sorted : forall x l, StronglySorted le_of l -> StronglySorted le_of (ins x l).
  Proof.
    intros x l H; induction H as [|y l Hs IH Hall]; cbn [ins].
    - constructor; constructor.
    - destruct (lt y x) eqn:E.
      + constructor; [exact IH|].
        apply (Permutation_Forall (ins_perm x l)). constructor; [|exact Hall].
        unfold le_of. apply lt_asym. exact E.
      + constructor; [constructor; assumption|].
        constructor; [exact E|].
        eapply Forall_impl; [|exact Hall]. intros z Hz. eapply le_trans; [exact E|exact Hz].
  Qed.

  Lemma isort_perm : forall l, Permutation l (fold_right ins [] l).
  Proof.
    induction l as [|x l IH]; cbn [fold_right]; [reflexivity|].
    eapply perm_trans; [apply perm_skip; exact IH|]. apply ins_perm.
  Qed.
  Lemma isort_sorted : forall l, StronglySorted le_of (fold_right ins [] l).
  Proof. induction l as [|x l IH]; cbn [fold_right]; [constructor|]. apply ins_sorted; exact IH. Qed.
End Isort.

Lemma insert_sorted_ints : forall x l,
  insert_sorted (VInt x) (map VInt l) = map VInt (ins Z Z.ltb x l).
Proof.
  intros x l; induction l as [|y l IH]; cbn [map insert_sorted ins val_less]; [reflexivity|].
  destruct (y <? x)%Z; [rewrite IH|]; reflexivity.
Qed.
Lemma sort_vals_ints : forall zs,
  sort_vals (map VInt zs) = Some (map VInt (fold_right (ins Z Z.ltb) [] zs)).
Proof.
  intros zs. unfold sort_vals, homogeneous.
  assert (H : forallb is_integer (map VInt zs) = true) by (induction zs; cbn; auto).
  rewrite H. cbn [orb]. f_equal. clear H.
  induction zs as [|z zs IH]; cbn [map fold_right]; [reflexivity|].
  rewrite IH. apply insert_sorted_ints.
Qed.

Lemma iter_list_sorted_ints : forall zs reversed,
  exists s, Permutation zs s /\ StronglySorted Z.le s /\
    iter_items (VList (map VInt zs)) reversed true =
      Ok (Some (map plain_item (map VInt (if reversed then rev s else s)))).
Proof.
  intros zs r. exists (fold_right (ins Z Z.ltb) [] zs). split; [apply isort_perm|]. split.
  - assert (H : StronglySorted (le_of Z Z.ltb) (fold_right (ins Z Z.ltb) [] zs)).
    { apply isort_sorted; unfold le_of; intros; rewrite ?Z.ltb_lt, ?Z.ltb_ge in *; lia. }
    clear -H. induction H as [|a l Hs IH Hall]; constructor; auto.
    eapply Forall_impl; [|exact Hall]. unfold le_of; intros z Hz. apply Z.ltb_ge in Hz. exact Hz.
  - cbn [iter_items]. rewrite sort_vals_ints. destruct r; [rewrite <- map_rev|]; reflexivity.
Qed.

(* strings sort by byte order *)
Lemma str_ltb_asym : forall a b, str_ltb a b = true -> str_ltb b a = false.
Proof.
  induction a as [|x a IH]; intros [|y b] H; cbn in *; try congruence.
  destruct (N.ltb_spec x y); destruct (N.ltb_spec y x); try lia; try congruence. auto.
Qed.
Lemma str_le_trans : forall a b c, le_of str str_ltb a b -> le_of str str_ltb b c -> le_of str str_ltb a c.
Proof.
  unfold le_of. induction a as [|x a IH]; intros [|y b] [|z c] H1 H2; cbn in *; try congruence.
  destruct (N.ltb_spec y x); try congruence. destruct (N.ltb_spec x y); try congruence.
  - destruct (N.ltb_spec z y); try congruence. destruct (N.ltb_spec y z).
    + destruct (N.ltb_spec z x); [lia|]. destruct (N.ltb_spec x z); [reflexivity|lia].
    + destruct (N.ltb_spec z x); [lia|]. destruct (N.ltb_spec x z); [reflexivity|lia].
  - destruct (N.ltb_spec z y); try congruence. destruct (N.ltb_spec y z).
    + destruct (N.ltb_spec z x); [lia|]. destruct (N.ltb_spec x z); [reflexivity|lia].
    + assert (x = y) by lia. assert (y = z) by lia. subst.
      destruct (N.ltb_spec z z); [lia|]. eapply IH; eassumption.
Qed.

Lemma insert_sorted_strs : forall x l,
  insert_sorted (VStr x) (map VStr l) = map VStr (ins str str_ltb x l).
Proof.
  intros x l; induction l as [|y l IH]; cbn [map insert_sorted ins val_less to_string]; [reflexivity|].
  destruct (str_ltb y x); [rewrite IH|]; reflexivity.
Qed.
Lemma sort_vals_strs : forall ss,
  sort_vals (map VStr ss) = Some (map VStr (fold_right (ins str str_ltb) [] ss)).
Proof.
  intros ss. unfold sort_vals, homogeneous.
  assert (H : forallb is_string (map VStr ss) = true) by (induction ss; cbn; auto).
  rewrite H, Bool.orb_true_r. f_equal. clear H.
  induction ss as [|z ss IH]; cbn [map fold_right]; [reflexivity|].
  rewrite IH. apply insert_sorted_strs.
Qed.
Lemma iter_list_sorted_strs : forall ss reversed,
  exists s, Permutation ss s /\ StronglySorted (fun a b => str_ltb b a = false) s /\
    iter_items (VList (map VStr ss)) reversed true =
      Ok (Some (map plain_item (map VStr (if reversed then rev s else s)))).
Proof.
  intros ss r. exists (fold_right (ins str str_ltb) [] ss). split; [apply isort_perm|]. split.
  - apply (isort_sorted str str_ltb str_ltb_asym str_le_trans).
  - cbn [iter_items]. rewrite sort_vals_strs. destruct r; [rewrite <- map_rev|]; reflexivity.
Qed.

(* mixed lists are outside the model (sort.Sort with a non-total Less) *)
Lemma iter_list_sorted_mixed_unmodelled : forall l reversed,
  homogeneous l = false -> iter_items (VList l) reversed true = Unmod.
Proof. intros l r H; cbn [iter_items]; unfold sort_vals; rewrite H; reflexivity. Qed.

(* ---------- the loop information ---------- *)
Lemma loop_field_lookup : forall fld idx count parent,
  exists m, loop_struct idx count parent = VStruct m /\
            assoc_get fld m = loop_field fld idx count parent.
Proof.
  intros fld idx count parent. eexists; split; [reflexivity|].
  unfold loop_field, n_Counter, n_Counter0, n_Revcounter, n_Revcounter0, n_First, n_Last, n_Parentloop.
  cbn [assoc_get].
  repeat match goal with
         | |- context [str_eqb fld ?k] => destruct (str_eqb fld k); [try reflexivity|]
         end.
  - f_equal; f_equal; lia.
  - f_equal; f_equal. destruct (Z.eqb_spec (idx + 1) count); destruct (Z.eqb_spec idx (count - 1)); try reflexivity; lia.
  - reflexivity.
Qed.

Lemma for_parent_nested : forall fr idx count parent,
  ctx_get n_forloop (f_priv fr) = Some (CV (as_value (loop_struct idx count parent))) ->
  for_parent fr = loop_struct idx count parent.
Proof. intros fr idx count parent H; unfold for_parent; rewrite H; reflexivity. Qed.
Lemma for_parent_outside : forall fr,
  ctx_get n_forloop (f_priv fr) = None -> for_parent fr = VNil.
Proof. intros fr H; unfold for_parent; rewrite H; reflexivity. Qed.

(* ---------- bindings of an iteration ---------- *)
Lemma for_bind_forloop : forall key value x idx count parent priv,
  ctx_get n_forloop (for_bind key value x idx count parent priv) =
    Some (CV (as_value (loop_struct idx count parent))).
Proof. intros; unfold for_bind; apply ctx_get_set_same. Qed.

Lemma for_bind_key : forall key value x idx count parent priv,
  key <> n_forloop -> (snd x = None \/ key <> value) ->
  ctx_get key (for_bind key value x idx count parent priv) = Some (CV (as_value (fst x))).
Proof.
  intros key value [k vo] idx count parent priv Hk Hv; unfold for_bind; cbn [fst snd] in *.
  rewrite ctx_get_set_other by assumption.
  destruct vo as [v|].
  - destruct Hv as [Hv|Hv]; [discriminate|]. rewrite ctx_get_set_other by assumption. apply ctx_get_set_same.
  - apply ctx_get_set_same.
Qed.

Lemma for_bind_value : forall key value x v idx count parent priv,
  snd x = Some v -> value <> n_forloop ->
  ctx_get value (for_bind key value x idx count parent priv) = Some (CV (as_value v)).
Proof.
  intros key value [k vo] v idx count parent priv Hx Hv; unfold for_bind; cbn [fst snd] in *. subst vo.
  rewrite ctx_get_set_other by assumption. apply ctx_get_set_same.
Qed.

Lemma for_bind_other : forall key value x idx count parent priv n,
  n <> n_forloop -> n <> key -> (snd x = None \/ n <> value) ->
  ctx_get n (for_bind key value x idx count parent priv) = ctx_get n priv.
Proof.
  intros key value [k vo] idx count parent priv n H1 H2 H3; unfold for_bind; cbn [fst snd] in *.
  rewrite ctx_get_set_other by assumption.
  destruct vo as [v|].
  - destruct H3 as [H3|H3]; [discriminate|]. rewrite !ctx_get_set_other by assumption. reflexivity.
  - rewrite ctx_get_set_other by assumption. reflexivity.
Qed.

Lemma top_frame_set_top : forall st fr fr', top_frame st = Ok fr -> top_frame (set_top st fr') = Ok fr'.
Proof.
  intros st fr fr' H; unfold top_frame, set_top in *. destruct (ms_frames st); [discriminate|reflexivity].
Qed.

(* the body of iteration idx runs in a frame from which the enclosing loop is this loop *)
Lemma for_state_top : forall st fr key value x idx count parent,
  top_frame st = Ok fr ->
  exists fr', top_frame (for_state st fr key value x idx count parent) = Ok fr' /\
              f_priv fr' = for_bind key value x idx count parent (f_priv fr) /\
              for_parent fr' = loop_struct idx count parent.
Proof.
  intros st fr key value x idx count parent H. eexists; split; [|split].
  - unfold for_state. eapply top_frame_set_top; exact H.
  - reflexivity.
  - apply for_parent_nested. cbn [f_priv with_priv]. apply for_bind_forloop.
Qed.

Section FlowFor.
  Variable se : senv.
  Variable globals : list (str * cval).

  Lemma exec_for_S_nil : forall f st key value parent body idx count,
    exec_for se globals (S f) st key value parent body [] idx count = xok [] st.
  Proof. reflexivity. Qed.

  Lemma exec_for_S_cons_raw : forall f st key value parent body k vo rest idx count,
    exec_for se globals (S f) st key value parent body ((k, vo) :: rest) idx count =
      match top_frame st with
      | Ok fr =>
          match exec_nodes se globals f (for_state st fr key value (k, vo) idx count parent) body with
          | (o1, Ok st1) =>
              let '(o2, r) := exec_for se globals f st1 key value parent body rest (idx + 1) count in
              (o1 ++ o2, r)
          | other => other
          end
      | other => xfail [] other
      end.
  Proof. reflexivity. Qed.

  (* one iteration *)
  Lemma for_per_element : forall f st fr key value parent body x rest idx count,
    top_frame st = Ok fr ->
    exec_for se globals (S f) st key value parent body (x :: rest) idx count =
      match exec_nodes se globals f (for_state st fr key value x idx count parent) body with
      | (o1, Ok st1) =>
          let '(o2, r) := exec_for se globals f st1 key value parent body rest (idx + 1) count in
          (o1 ++ o2, r)
      | other => other
      end.
  Proof.
    intros f st fr key value parent body [k vo] rest idx count H.
    rewrite exec_for_S_cons_raw, H. reflexivity.
  Qed.

  (* the loop rule: an invariant indexed by the position *)
  Lemma for_invariant : forall key value parent body count (Inv : Z -> mstate -> Prop)
                               (g : Z -> item -> str) (all : list item) f0,
    (forall idx st, Inv idx st -> exists fr, top_frame st = Ok fr) ->
    (forall f, (f0 <= f)%nat -> forall idx st fr x,
        Inv idx st -> top_frame st = Ok fr -> In x all ->
        exists st', exec_nodes se globals f (for_state st fr key value x idx count parent) body = (g idx x, Ok st')
                    /\ Inv (idx + 1)%Z st') ->
    forall items, incl items all ->
    forall idx st, Inv idx st ->
    forall f, (f0 <= f)%nat ->
      exists st', exec_for se globals (S (length items) + f) st key value parent body items idx count
                    = (for_output g idx items, Ok st')
                  /\ Inv (idx + Z.of_nat (length items))%Z st'.
  Proof.
    intros key value parent body count Inv g all f0 Htop Hbody items.
    induction items as [|x items IH]; intros Hincl idx st HI f Hf.
    - exists st; split; [reflexivity|]. cbn [length Z.of_nat]. rewrite Z.add_0_r. exact HI.
    - destruct (Htop _ _ HI) as [fr Hfr].
      cbn [length]. change (S (S (length items)) + f)%nat with (S (S (length items) + f)).
      rewrite (for_per_element _ _ fr) by exact Hfr.
      destruct (Hbody (S (length items) + f)%nat ltac:(lia) idx st fr x HI Hfr (Hincl x (or_introl eq_refl)))
        as (st1 & Hb & HI1).
      rewrite Hb.
      destruct (IH (fun y Hy => Hincl y (or_intror Hy)) (idx + 1)%Z st1 HI1 f Hf) as (st' & He & HI').
      rewrite He. exists st'; split; [reflexivity|].
      replace (idx + Z.of_nat (S (length items)))%Z with (idx + 1 + Z.of_nat (length items))%Z by lia.
      exact HI'.
  Qed.

  (* ---------- the for tag ---------- *)
  Lemma exec_node_S_for : forall f st key value obj reversed sorted body empty,
    exec_node se globals (S f) st (NFor key value obj reversed sorted body empty) =
      match top_frame st with
      | Ok fr =>
          match eval se globals f (push_frame st (for_frame fr)) obj with
          | Ok (ov, st1) =>
              match iter_items (vv ov) reversed sorted with
              | Ok (Some ((_ :: _) as items)) =>
                  let '(o, r) := exec_for se globals f st1 key value (for_parent fr) body items 0
                                          (Z.of_nat (length items)) in
                  (o, match r with Ok st2 => Ok (pop_frame st2) | other => other end)
              | Ok _ =>
                  match empty with
                  | Some eb => let '(o, r) := exec_nodes se globals f st1 eb in
                               (o, match r with Ok st2 => Ok (pop_frame st2) | other => other end)
                  | None => xok [] (pop_frame st1)
                  end
              | other => xfail [] other
              end
          | other => xfail [] other
          end
      | other => xfail [] other
      end.
  Proof. reflexivity. Qed.

  Lemma for_nonempty : forall f st fr key value obj reversed sorted body empty ov st1 x items,
    top_frame st = Ok fr ->
    eval se globals f (push_frame st (for_frame fr)) obj = Ok (ov, st1) ->
    iter_items (vv ov) reversed sorted = Ok (Some (x :: items)) ->
    exec_node se globals (S f) st (NFor key value obj reversed sorted body empty) =
      let '(o, r) := exec_for se globals f st1 key value (for_parent fr) body (x :: items) 0
                              (Z.of_nat (length (x :: items))) in
      (o, match r with Ok st2 => Ok (pop_frame st2) | other => other end).
  Proof.
    intros f st fr key value obj r s body empty ov st1 x items Hfr He Hi.
    rewrite exec_node_S_for, Hfr, He, Hi. reflexivity.
  Qed.

  Lemma for_empty : forall f st fr key value obj reversed sorted body empty ov st1,
    top_frame st = Ok fr ->
    eval se globals f (push_frame st (for_frame fr)) obj = Ok (ov, st1) ->
    (iter_items (vv ov) reversed sorted = Ok (Some []) \/ iter_items (vv ov) reversed sorted = Ok None) ->
    exec_node se globals (S f) st (NFor key value obj reversed sorted body empty) =
      match empty with
      | Some eb => let '(o, r) := exec_nodes se globals f st1 eb in
                   (o, match r with Ok st2 => Ok (pop_frame st2) | other => other end)
      | None => xok [] (pop_frame st1)
      end.
  Proof.
    intros f st fr key value obj r s body empty ov st1 Hfr He [Hi|Hi];
      rewrite exec_node_S_for, Hfr, He, Hi; reflexivity.
  Qed.

  (* the whole tag, with the loop rule *)
  Lemma for_renders_each : forall st fr key value obj reversed sorted body empty ov st1 items
                                  (Inv : Z -> mstate -> Prop) (g : Z -> item -> str) fe fb,
    top_frame st = Ok fr ->
    (forall f, (fe <= f)%nat -> eval se globals f (push_frame st (for_frame fr)) obj = Ok (ov, st1)) ->
    iter_items (vv ov) reversed sorted = Ok (Some items) -> items <> [] ->
    (forall idx st', Inv idx st' -> exists fr', top_frame st' = Ok fr') ->
    (forall f, (fb <= f)%nat -> forall idx st' fr' x,
        Inv idx st' -> top_frame st' = Ok fr' -> In x items ->
        exists st'', exec_nodes se globals f
                       (for_state st' fr' key value x idx (Z.of_nat (length items)) (for_parent fr)) body
                     = (g idx x, Ok st'')
                     /\ Inv (idx + 1)%Z st'') ->
    Inv 0%Z st1 ->
    exists f0, forall f, (f0 <= f)%nat ->
      exists st2, exec_node se globals f st (NFor key value obj reversed sorted body empty)
                    = (for_output g 0 items, Ok (pop_frame st2))
                  /\ Inv (Z.of_nat (length items)) st2.
  Proof.
    intros st fr key value obj r s body empty ov st1 items Inv g fe fb Hfr He Hi Hne Htop Hbody HI.
    exists (S (S (length items)) + fe + fb)%nat; intros f Hf.
    destruct items as [|x items]; [congruence|].
    remember (f - S (S (length (x :: items))))%nat as f' eqn:Ef'.
    assert (E : f = S (S (length (x :: items)) + f')) by lia.
    assert (Hf' : (fb <= f')%nat) by lia.
    assert (Hfe : (fe <= S (length (x :: items)) + f')%nat) by lia.
    clear Ef' Hf. subst f.
    destruct (for_invariant key value (for_parent fr) body (Z.of_nat (length (x :: items))) Inv g
                (x :: items) fb Htop Hbody (x :: items) (incl_refl _) 0%Z st1 HI f' Hf') as (st2 & Hx & HI2).
    exists st2; split; [|exact HI2].
    rewrite (for_nonempty _ _ fr _ _ _ _ _ _ _ ov st1 x items Hfr (He _ Hfe) Hi).
    unfold item in *. rewrite Hx. reflexivity.
  Qed.

  (* ---------- forloop.<Field> ---------- *)
  Lemma walk_S_nil : forall f st cur safe,
    walk se globals (S f) st cur safe [] = Ok (mkV cur safe, st).
  Proof. reflexivity. Qed.
  Lemma walk_S_field : forall f st m safe name rest,
    walk se globals (S f) st (VStruct m) safe (PIdent name None :: rest) =
      match assoc_get name m with
      | Some VNil | None => Ok (as_value VNil, st)
      | Some v => walk se globals f st v safe rest
      end.
  Proof. reflexivity. Qed.
  Lemma eval_S_var : forall f st ps, eval se globals (S f) st (EVar ps) = resolve se globals f st ps.
  Proof. reflexivity. Qed.
  Lemma resolve_S_data : forall f st fr name rest v,
    top_frame st = Ok fr ->
    ctx_get name (f_priv fr) = Some (CV v) -> vv v <> VNil ->
    resolve se globals (S f) st (PIdent name None :: rest) = walk se globals f st (vv v) (vsafe v) rest.
  Proof.
    intros f st fr name rest v Hfr Hc Hv.
    change (resolve se globals (S f) st (PIdent name None :: rest)) with
      (do fr <- top_frame st;
       match (match ctx_get name (f_priv fr) with Some c => Some c | None => ctx_get name (f_pub fr) end) with
       | None => Ok (as_value VNil, st)
       | Some (CV v) => match vv v with VNil => Ok (as_value VNil, st) | _ => walk se globals f st (vv v) (vsafe v) rest end
       | Some (CMacro m fidx) =>
           do '(args, st1) <- eval_list se globals f st [];
           do '(r, st2) <- call_macro se globals f st1 m fidx args;
           walk se globals f st2 (vv r) (vsafe r) rest
       | Some (CBlock fidx wrappers) =>
           match rest with
           | [PIdent meth mcall] =>
               if str_eqb meth [83; 117; 112; 101; 114] then
                 match mcall with Some (_ :: _) => xerr | _ => call_super se globals f st fidx wrappers end
               else Unmod
           | _ => Unmod
           end
       | Some (CCycle _ _ _ _) => Unmod
       end).
    rewrite Hfr. cbn [bind]. rewrite Hc. destruct (vv v); try reflexivity. congruence.
  Qed.

  Lemma forloop_field_eval : forall f st fr fld idx count parent v,
    top_frame st = Ok fr ->
    ctx_get n_forloop (f_priv fr) = Some (CV (as_value (loop_struct idx count parent))) ->
    loop_field fld idx count parent = Some v -> v <> VNil ->
    eval se globals (4 + f) st (EVar [PIdent n_forloop None; PIdent fld None]) = Ok (as_value v, st).
  Proof.
    intros f st fr fld idx count parent v Hfr Hc Hl Hv.
    change (4 + f)%nat with (S (S (S (S f)))).
    rewrite eval_S_var, (resolve_S_data _ _ fr _ _ _ Hfr Hc) by discriminate.
    destruct (loop_field_lookup fld idx count parent) as (m & Hm & Ha).
    cbn [vv vsafe as_value]. rewrite Hm, walk_S_field, Ha, Hl.
    destruct v; try congruence; apply walk_S_nil.
  Qed.
End FlowFor.

(* ================= (3) cycle / ifchanged ================= *)
(* ---------- per-execution node state ---------- *)
Lemma ns_get_set_same : forall st e id s, ns_get e id (ms_nodes (ns_set st e id s)) = Some s.
Proof. intros; unfold ns_set; cbn [ms_nodes ns_get]. rewrite !N.eqb_refl. reflexivity. Qed.

Lemma ns_get_filter_other : forall e id e' id' l,
  (e' =? e) && (id' =? id) = false ->
  ns_get e' id' (filter (fun x => negb ((fst (fst x) =? e) && (snd (fst x) =? id))) l) = ns_get e' id' l.
Proof.
  intros e id e' id' l H; induction l as [|[[e0 i0] s0] l IH]; cbn [filter ns_get fst snd]; [reflexivity|].
  destruct ((e0 =? e) && (i0 =? id)) eqn:E0; cbn [negb].
  - rewrite IH. apply Bool.andb_true_iff in E0. destruct E0 as [E1 E2].
    apply N.eqb_eq in E1, E2. subst e0 i0. rewrite H. reflexivity.
  - cbn [ns_get]. rewrite IH. reflexivity.
Qed.

Lemma ns_get_set_other : forall st e id s e' id',
  (e' =? e) && (id' =? id) = false ->
  ns_get e' id' (ms_nodes (ns_set st e id s)) = ns_get e' id' (ms_nodes st).
Proof.
  intros st e id s e' id' H; unfold ns_set; cbn [ms_nodes ns_get]. rewrite H. apply ns_get_filter_other; exact H.
Qed.

Lemma ns_set_frames : forall st e id s, ms_frames (ns_set st e id s) = ms_frames st.
Proof. reflexivity. Qed.

Lemma cycle_pos_set : forall st e id j, cycle_pos (ns_set st e id (NSCycle j)) e id = j.
Proof. intros; unfold cycle_pos; rewrite ns_get_set_same; reflexivity. Qed.
Lemma cycle_pos_fresh : forall st e id, ns_get e id (ms_nodes st) = None -> cycle_pos st e id = 0%Z.
Proof. intros st e id H; unfold cycle_pos; rewrite H; reflexivity. Qed.

Lemma top_frame_same_frames : forall st st', ms_frames st' = ms_frames st -> top_frame st' = top_frame st.
Proof. intros st st' H; unfold top_frame; rewrite H; reflexivity. Qed.

(* ---------- ifchanged: comparing with what is remembered ---------- *)
Definition changed_model (lastv now : list value) : option bool :=
  match lastv with
  | [] => Some true
  | _ => fold_right (fun pr acc =>
                       match acc, equal_value_to (vv (fst pr)) (vv (snd pr)) with
                       | None, _ | _, None => None
                       | Some a, Some eq => Some (a || negb eq)
                       end) (Some false) (combine lastv now)
  end.

Lemma changed_model_spec : forall lastv now, changed_model lastv now = ifchanged_fires lastv now.
Proof.
  intros lastv now.
  assert (H : forall l n,
    fold_right (fun (pr : value * value) acc =>
                  match acc, equal_value_to (vv (fst pr)) (vv (snd pr)) with
                  | None, _ | _, None => None
                  | Some a, Some eq => Some (a || negb eq)
                  end) (Some false) (combine l n) = option_map negb (all_equal l n)).
  { induction l as [|x l IH]; intros [|y n]; try reflexivity.
    cbn [combine fold_right all_equal fst snd]. rewrite IH.
    destruct (all_equal l n) as [r|]; destruct (equal_value_to (vv x) (vv y)) as [e|]; try reflexivity.
    destruct e, r; reflexivity. }
  destruct lastv as [|x l]; [reflexivity|]. unfold changed_model, ifchanged_fires. apply H.
Qed.

Lemma all_equal_true : forall l n, all_equal l n = Some true ->
  forall i x y, nth_error l i = Some x -> nth_error n i = Some y ->
    equal_value_to (vv x) (vv y) = Some true.
Proof.
  induction l as [|x0 l IH]; intros [|y0 n] H i x y Hx Hy; try (destruct i; discriminate).
  cbn [all_equal] in H.
  destruct (equal_value_to (vv x0) (vv y0)) as [e|] eqn:E; [|discriminate].
  destruct (all_equal l n) as [r|] eqn:R; [|discriminate].
  destruct e; [|discriminate]. destruct r; [|discriminate].
  destruct i as [|i]; cbn in Hx, Hy.
  - inversion Hx; inversion Hy; subst; exact E.
  - eapply IH; eauto.
Qed.

Lemma all_equal_false : forall l n, all_equal l n = Some false ->
  exists i x y, nth_error l i = Some x /\ nth_error n i = Some y /\
                equal_value_to (vv x) (vv y) = Some false.
Proof.
  induction l as [|x0 l IH]; intros [|y0 n] H; try discriminate.
  cbn [all_equal] in H.
  destruct (equal_value_to (vv x0) (vv y0)) as [e|] eqn:E; [|discriminate].
  destruct (all_equal l n) as [r|] eqn:R; [|discriminate].
  destruct e.
  - destruct r; [discriminate|]. destruct (IH n R) as (i & x & y & Hx & Hy & He).
    exists (S i), x, y; auto.
  - exists O, x0, y0; auto.
Qed.

(* ---------- cycle: the "advance another cycle" special case ---------- *)
Definition cyc_model (fr : frame) (item : expr) : option (str * N * list expr * bool) :=
  match item with
  | EFilt (EVar [PIdent nm None]) [] =>
      match ctx_get nm (f_priv fr) with
      | Some (CCycle cid cargs csilent _) => Some (nm, cid, cargs, csilent)
      | _ => None
      end
  | _ => None
  end.

Lemma cyc_model_none : forall fr item, refers_to_cycle (f_priv fr) item = false -> cyc_model fr item = None.
Proof.
  intros fr item H. unfold cyc_model, refers_to_cycle in *.
  destruct item as [| | | | | |e chain| | | | |]; try reflexivity.
  destruct e as [| | | |parts| | | | | | |]; try reflexivity.
  destruct parts as [|p [|p' parts]]; try reflexivity;
    (destruct p as [nm call| |]; try reflexivity; destruct call; try reflexivity).
  destruct chain; try reflexivity.
  destruct (ctx_get nm (f_priv fr)) as [[| | |]|]; try reflexivity. discriminate.
Qed.

Lemma cycle_out_text : forall fr item v st s,
  to_string (vv v) = Some s -> cycle_out fr item v st = xok (cycle_text (f_auto fr) item v s) st.
Proof.
  intros fr item v st s H. unfold cycle_out, cycle_text, n_safe. rewrite H.
  destruct (f_auto fr && negb (vsafe v) && negb (filter_applied [115; 97; 102; 101] item) && is_string (vv v));
    reflexivity.
Qed.

Lemma rem_pos : forall p n, n <> O ->
  Z.to_nat (Z.rem (Z.of_nat p) (Z.of_nat n)) = (p mod n)%nat.
Proof.
  intros p n Hn. rewrite Z.rem_mod_nonneg by lia. rewrite <- Nat2Z.inj_mod. apply Nat2Z.id.
Qed.

Section FlowCycle.
  Variable se : senv.
  Variable globals : list (str * cval).

  Lemma exec_node_S_cycle : forall f st id args asname silent,
    exec_node se globals (S f) st (NCycle id args asname silent) =
      match top_frame st with
      | Ok fr =>
          let idx := cycle_pos st (f_exec fr) id in
          let item := nth (Z.to_nat (Z.rem idx (Z.of_nat (length args)))) args (EBool false) in
          let st0 := ns_set st (f_exec fr) id (NSCycle (idx + 1)) in
          match cyc_model fr item with
          | Some (nm, cid, cargs, csilent) =>
              let cidx := cycle_pos st0 (f_exec fr) cid in
              let citem := nth (Z.to_nat (Z.rem cidx (Z.of_nat (length cargs)))) cargs (EBool false) in
              let st1 := ns_set st0 (f_exec fr) cid (NSCycle (cidx + 1)) in
              match eval se globals f st1 citem with
              | Ok (v, st2) =>
                  match set_priv st2 nm (CCycle cid cargs csilent v) with
                  | Ok st3 => if csilent then xok [] st3 else cycle_out fr citem v st3
                  | other => xfail [] other
                  end
              | other => xfail [] other
              end
          | None =>
              match eval se globals f st0 item with
              | Ok (v, st1) =>
                  match (match asname with
                         | [] => Ok st1
                         | _ => set_priv st1 asname (CCycle id args silent v)
                         end) with
                  | Ok st2 => if silent then xok [] st2 else cycle_out fr item v st2
                  | other => xfail [] other
                  end
              | other => xfail [] other
              end
          end
      | other => xfail [] other
      end.
  Proof. reflexivity. Qed.

  (* one execution of a plain cycle tag *)
  Lemma cycle_step : forall f st fr id args p a v st1 s,
    top_frame st = Ok fr ->
    cycle_pos st (f_exec fr) id = Z.of_nat p ->
    args <> [] ->
    a = nth (p mod length args) args (EBool false) ->
    refers_to_cycle (f_priv fr) a = false ->
    eval se globals f (ns_set st (f_exec fr) id (NSCycle (Z.of_nat (S p)))) a = Ok (v, st1) ->
    to_string (vv v) = Some s ->
    exec_node se globals (S f) st (NCycle id args [] false) = xok (cycle_text (f_auto fr) a v s) st1.
  Proof.
    intros f st fr id args p a v st1 s Hfr Hp Hne Ha Hr He Hs.
    rewrite exec_node_S_cycle, Hfr. cbv zeta. rewrite Hp.
    rewrite rem_pos by (destruct args; [congruence|discriminate]).
    rewrite <- Ha. rewrite (cyc_model_none _ _ Hr).
    replace (Z.of_nat p + 1)%Z with (Z.of_nat (S p)) by lia. rewrite He.
    apply cycle_out_text; exact Hs.
  Qed.

  (* k executions in a row walk the arguments round-robin *)
  Lemma cycle_round_robin : forall f fr id args (out : nat -> str) frames,
    args <> [] ->
    (forall a, In a args -> refers_to_cycle (f_priv fr) a = false) ->
    (forall st', ms_frames st' = frames -> forall j, (j < length args)%nat ->
       exists v s, eval se globals f st' (nth j args (EBool false)) = Ok (v, st') /\
                   to_string (vv v) = Some s /\
                   cycle_text (f_auto fr) (nth j args (EBool false)) v s = out j) ->
    forall k st p,
      ms_frames st = frames -> top_frame st = Ok fr ->
      cycle_pos st (f_exec fr) id = Z.of_nat p ->
      exists st', exec_times se globals (S f) st (NCycle id args [] false) k
                    = (round_robin out (length args) p k, Ok st')
                  /\ ms_frames st' = frames
                  /\ cycle_pos st' (f_exec fr) id = Z.of_nat (p + k).
  Proof.
    intros f fr id args out frames Hne Hr Hev; induction k as [|k IH]; intros st p Hfs Hfr Hp.
    - exists st; cbn [exec_times round_robin]. rewrite Nat.add_0_r. auto.
    - set (st0 := ns_set st (f_exec fr) id (NSCycle (Z.of_nat (S p)))).
      assert (Hlt : (p mod length args < length args)%nat).
      { apply Nat.mod_upper_bound. destruct args; [congruence|discriminate]. }
      destruct (Hev st0 Hfs _ Hlt) as (v & s & He & Hs & Ho).
      cbn [exec_times round_robin].
      rewrite (cycle_step f st fr id args p _ v st0 s Hfr Hp Hne eq_refl) by
        (auto; apply Hr; apply nth_In; exact Hlt).
      unfold xok. rewrite Ho.
      destruct (IH st0 (S p)) as (st' & Hx & Hfs' & Hp').
      + exact Hfs.
      + rewrite <- Hfr. apply top_frame_same_frames. reflexivity.
      + apply cycle_pos_set.
      + rewrite Hx. exists st'; split; [reflexivity|]. split; [exact Hfs'|].
        rewrite Hp'. f_equal. lia.
  Qed.

  (* ---------- ifchanged ---------- *)
  Lemma exec_node_S_ifchanged_watched : forall f st id w ws thenb elseb,
    exec_node se globals (S f) st (NIfchanged id (w :: ws) thenb elseb) =
      match top_frame st with
      | Ok fr =>
          match eval_list se globals f st (w :: ws) with
          | Ok (now, st1) =>
              match changed_model (stored_vals (ns_get (f_exec fr) id (ms_nodes st))) now with
              | None => ([], Unmod)
              | Some changed =>
                  let st2 := ns_set st1 (f_exec fr) id (NSIfchanged now None) in
                  if changed then exec_nodes se globals f st2 thenb
                  else match elseb with Some eb => exec_nodes se globals f st2 eb | None => xok [] st2 end
              end
          | other => xfail [] other
          end
      | other => xfail [] other
      end.
  Proof. reflexivity. Qed.

  Lemma ifchanged_watched : forall f st fr id w ws thenb elseb now st1,
    top_frame st = Ok fr ->
    eval_list se globals f st (w :: ws) = Ok (now, st1) ->
    exec_node se globals (S f) st (NIfchanged id (w :: ws) thenb elseb) =
      let st2 := ns_set st1 (f_exec fr) id (NSIfchanged now None) in
      match ifchanged_fires (stored_vals (ns_get (f_exec fr) id (ms_nodes st))) now with
      | None => ([], Unmod)
      | Some true => exec_nodes se globals f st2 thenb
      | Some false => match elseb with Some eb => exec_nodes se globals f st2 eb | None => xok [] st2 end
      end.
  Proof.
    intros f st fr id w ws thenb elseb now st1 Hfr He.
    rewrite exec_node_S_ifchanged_watched, Hfr, He, changed_model_spec.
    destruct (ifchanged_fires _ now) as [[|]|]; reflexivity.
  Qed.

  (* ... and the values just seen are what the next execution compares with *)
  Lemma ifchanged_stores : forall st1 e id now,
    stored_vals (ns_get e id (ms_nodes (ns_set st1 e id (NSIfchanged now None)))) = now.
  Proof. intros; rewrite ns_get_set_same; reflexivity. Qed.

  Lemma exec_node_S_ifchanged_content : forall f st id thenb elseb,
    exec_node se globals (S f) st (NIfchanged id [] thenb elseb) =
      match top_frame st with
      | Ok fr =>
          match exec_nodes se globals f st thenb with
          | (o, Ok st1) =>
              let same := match stored_content (ns_get (f_exec fr) id (ms_nodes st)) with
                          | Some c => str_eqb c o
                          | None => Nat.eqb (length o) 0
                          end in
              if same then xok [] st1
              else xok o (ns_set st1 (f_exec fr) id (NSIfchanged [] (Some o)))
          | (_, other) => ([], other)
          end
      | other => xfail [] other
      end.
  Proof. reflexivity. Qed.

  Lemma ifchanged_content : forall f st fr id thenb elseb o st1,
    top_frame st = Ok fr ->
    exec_nodes se globals f st thenb = (o, Ok st1) ->
    exec_node se globals (S f) st (NIfchanged id [] thenb elseb) =
      match stored_content (ns_get (f_exec fr) id (ms_nodes st)) with
      | Some c => if str_eqb c o then xok [] st1
                  else xok o (ns_set st1 (f_exec fr) id (NSIfchanged [] (Some o)))
      | None => if Nat.eqb (length o) 0 then xok [] st1
                else xok o (ns_set st1 (f_exec fr) id (NSIfchanged [] (Some o)))
      end.
  Proof.
    intros f st fr id thenb elseb o st1 Hfr He.
    rewrite exec_node_S_ifchanged_content, Hfr, He. cbv zeta.
    destruct (stored_content _); reflexivity.
  Qed.
End FlowCycle.

(* ================= (4) macro calls ================= *)
(* ---------- frames by index ---------- *)
Lemma nth_error_update_nth_same : forall {A} (l : list A) i x y,
  nth_error l i = Some y -> nth_error (update_nth l i x) i = Some x.
Proof.
  intros A l; induction l as [|z l IH]; intros i x y H; destruct i; try discriminate; cbn in *; eauto.
Qed.
Lemma length_update_nth : forall {A} (l : list A) i x, length (update_nth l i x) = length l.
Proof. intros A l; induction l as [|z l IH]; intros [|i] x; cbn; auto. Qed.

Lemma frame_at_set_same : forall st i fr fr0,
  frame_at st i = Some fr0 -> frame_at (set_frame_at st i fr) i = Some fr.
Proof.
  intros st i fr fr0 H; unfold frame_at, set_frame_at in *; cbn [ms_frames].
  rewrite rev_involutive. eapply nth_error_update_nth_same; exact H.
Qed.
Lemma frame_at_lt : forall st i fr, frame_at st i = Some fr -> (i < length (ms_frames st))%nat.
Proof.
  intros st i fr H; unfold frame_at in H. rewrite <- rev_length. apply nth_error_Some. congruence.
Qed.
Lemma frame_at_push : forall st fr i,
  (i < length (ms_frames st))%nat -> frame_at (push_frame st fr) i = frame_at st i.
Proof.
  intros st fr i H; unfold frame_at, push_frame; cbn [ms_frames rev].
  apply nth_error_app1. rewrite rev_length. exact H.
Qed.
Lemma set_frame_at_length : forall st i fr, length (ms_frames (set_frame_at st i fr)) = length (ms_frames st).
Proof. intros; unfold set_frame_at; cbn [ms_frames]. rewrite rev_length, length_update_nth, rev_length. reflexivity. Qed.

Lemma rejoin_view : forall st i, rejoin (frames_above st i) (below_view st i) = st.
Proof.
  intros [frs nodes g] i; unfold rejoin, frames_above, below_view; cbn [ms_frames ms_nodes ms_g].
  rewrite firstn_skipn. reflexivity.
Qed.

(* ---------- contexts: Update ---------- *)
Lemma ctx_update_cons : forall dst kv src,
  ctx_update dst (kv :: src) = ctx_update (ctx_set (fst kv) (snd kv) dst) src.
Proof. reflexivity. Qed.

Lemma ctx_get_update_notin : forall k src dst,
  ~ In k (map fst src) -> ctx_get k (ctx_update dst src) = ctx_get k dst.
Proof.
  intros k src; induction src as [|[k0 v0] src IH]; intros dst H; [reflexivity|].
  rewrite ctx_update_cons, IH by (intro Hin; apply H; right; exact Hin).
  cbn [fst snd]. apply ctx_get_set_other. intro E; apply H; left; cbn; congruence.
Qed.

Lemma ctx_get_update_in : forall k v src dst,
  NoDup (map fst src) -> In (k, v) src -> ctx_get k (ctx_update dst src) = Some v.
Proof.
  intros k v src; induction src as [|[k0 v0] src IH]; intros dst Hnd Hin; [contradiction|].
  cbn [map fst] in Hnd. inversion Hnd as [|? ? Hnotin Hnd']; subst.
  rewrite ctx_update_cons. cbn [fst snd]. destruct Hin as [E|Hin].
  - inversion E; subst k0 v0. rewrite ctx_get_update_notin by exact Hnotin. apply ctx_get_set_same.
  - apply IH; assumption.
Qed.

Lemma map_fst_combine_firstn : forall {A B} (a : list A) (b : list B),
  map fst (combine a b) = firstn (length b) a.
Proof. intros A B a; induction a as [|x a IH]; intros [|y b]; cbn; try reflexivity. rewrite IH; reflexivity. Qed.

Lemma arg_bindings_names : forall params args,
  map fst (arg_bindings params args) = firstn (length args) (map fst params).
Proof.
  intros params args; unfold arg_bindings. rewrite map_map. cbn [fst].
  rewrite <- (map_map fst fst), map_fst_combine_firstn. symmetry; apply firstn_map.
Qed.

Lemma In_firstn_In : forall {A} n (l : list A) x, In x (firstn n l) -> In x l.
Proof.
  intros A n; induction n as [|n IH]; intros [|y l] x H; cbn in *; try contradiction.
  destruct H as [H|H]; [left; exact H|right; apply IH; exact H].
Qed.

Lemma NoDup_firstn : forall {A} n (l : list A), NoDup l -> NoDup (firstn n l).
Proof.
  intros A n; induction n as [|n IH]; intros [|x l] H; cbn; try constructor.
  - inversion H; subst. intro Hin. apply In_firstn_In in Hin. contradiction.
  - inversion H; subst; auto.
Qed.

Lemma NoDup_later_notin_firstn : forall {A} (l : list A) n i x,
  NoDup l -> nth_error l i = Some x -> (n <= i)%nat -> ~ In x (firstn n l).
Proof.
  intros A l; induction l as [|y l IH]; intros n i x Hnd Hi Hle Hin.
  - destruct i; discriminate.
  - inversion Hnd as [|? ? Hnotin Hnd']; subst.
    destruct n as [|n]; [contradiction|]. destruct i as [|i]; [lia|].
    cbn in Hi, Hin. destruct Hin as [E|Hin].
    + subst y. apply Hnotin. eapply nth_error_In; exact Hi.
    + eapply (IH n i x); eauto. lia.
Qed.

Lemma nth_error_combine : forall {A B} (a : list A) (b : list B) i x y,
  nth_error a i = Some x -> nth_error b i = Some y -> nth_error (combine a b) i = Some (x, y).
Proof.
  intros A B a; induction a as [|x0 a IH]; intros [|y0 b] [|i] x y Ha Hb; cbn in *; try discriminate.
  - congruence.
  - auto.
Qed.

(* what a macro call binds *)
Lemma macro_ctx_arg : forall defctx params ds args i nm d a,
  NoDup (map fst params) ->
  nth_error params i = Some (nm, d) -> nth_error args i = Some a ->
  ctx_get nm (macro_ctx defctx (default_bindings params ds) params args) = Some (CV (as_value (vv a))).
Proof.
  intros defctx params ds args i nm d a Hnd Hp Ha. unfold macro_ctx.
  apply ctx_get_update_in.
  - rewrite arg_bindings_names. apply NoDup_firstn; exact Hnd.
  - unfold arg_bindings.
    change (nm, CV (as_value (vv a))) with
      ((fun pa : (str * option expr) * value => (fst (fst pa), CV (as_value (vv (snd pa))))) ((nm, d), a)).
    apply in_map. eapply nth_error_In. apply nth_error_combine; eassumption.
Qed.

Lemma macro_ctx_default : forall defctx params ds args i nm d dv,
  NoDup (map fst params) -> length ds = length params ->
  (length args <= i)%nat ->
  nth_error params i = Some (nm, d) -> nth_error ds i = Some dv ->
  ctx_get nm (macro_ctx defctx (default_bindings params ds) params args) = Some (CV dv).
Proof.
  intros defctx params ds args i nm d dv Hnd Hlen Hle Hp Hd. unfold macro_ctx.
  assert (Hnm : nth_error (map fst params) i = Some nm) by (rewrite nth_error_map, Hp; reflexivity).
  rewrite ctx_get_update_notin.
  2:{ rewrite arg_bindings_names. eapply NoDup_later_notin_firstn; eauto. }
  assert (Hnames : map fst (default_bindings params ds) = map fst params).
  { unfold default_bindings. rewrite map_fst_combine_firstn, map_length, Hlen.
    rewrite <- (map_length fst params). apply firstn_all. }
  apply ctx_get_update_in.
  - rewrite Hnames; exact Hnd.
  - unfold default_bindings. eapply nth_error_In. apply nth_error_combine; [exact Hnm|].
    rewrite nth_error_map, Hd. reflexivity.
Qed.

Lemma macro_ctx_other : forall defctx params ds args k,
  ~ In k (map fst params) ->
  ctx_get k (macro_ctx defctx (default_bindings params ds) params args) = ctx_get k defctx.
Proof.
  intros defctx params ds args k Hk. unfold macro_ctx.
  rewrite ctx_get_update_notin.
  2:{ rewrite arg_bindings_names. intro Hin; apply In_firstn_In in Hin; contradiction. }
  apply ctx_get_update_notin. unfold default_bindings.
  rewrite map_fst_combine_firstn. intro Hin; apply In_firstn_In in Hin; contradiction.
Qed.


Section Macros.
  Variable se : senv.
  Variable globals : list (str * cval).

  Lemma call_macro_S : forall f st mname params body ex fidx args,
    call_macro se globals (S f) st (Macro mname params body ex) fidx args =
      match frame_at st fidx with
      | None => Panic 93
      | Some dfr =>
          if (max_macro_depth <? f_depth dfr + 1)%Z then xerr
          else
            let st0 := enter_macro st fidx dfr in
            match macro_defaults se globals f (below_view st0 fidx) params with
            | Ok (dvals, st_d) =>
                let st1 := rejoin (frames_above st0 fidx) st_d in
                if Nat.ltb (length params) (length args) then xerr
                else
                  match frame_at st1 fidx with
                  | None => Panic 94
                  | Some dfr1 =>
                      match exec_nodes se globals f (push_frame st1 (macro_frame dfr1 dvals params args)) body with
                      | (out, Ok st2) => Ok (as_safe_value (VStr out), leave_macro st2 fidx)
                      | (_, Err k) => Err 3
                      | (_, Unmod) => Unmod
                      | (_, Fuel) => Fuel
                      | (_, Panic s) => Panic s
                      end
                  end
            | Err k => Err 3
            | Unmod => Unmod
            | Fuel => Fuel
            | Panic s => Panic s
            end
      end.
  Proof. reflexivity. Qed.

  Lemma macro_defaults_S_nil : forall f st, macro_defaults se globals (S f) st [] = Ok ([], st).
  Proof. reflexivity. Qed.
  Lemma macro_defaults_S_none : forall f st name rest,
    macro_defaults se globals (S f) st ((name, None) :: rest) =
      (do '(r, st1) <- macro_defaults se globals f st rest; Ok ((name, CV (as_value VNil)) :: r, st1)).
  Proof. reflexivity. Qed.
  Lemma macro_defaults_S_some : forall f st name e rest,
    macro_defaults se globals (S f) st ((name, Some e) :: rest) =
      (do '(v, st1) <- eval se globals f st e;
       do '(r, st2) <- macro_defaults se globals f st1 rest; Ok ((name, CV v) :: r, st2)).
  Proof. reflexivity. Qed.

  (* ---------- the call, step by step ---------- *)
  Lemma macro_call_step : forall f st mname params body ex fidx args dfr dvals st_d dfr1 out st2,
    frame_at st fidx = Some dfr ->
    (f_depth dfr + 1 <= max_macro_depth)%Z ->
    macro_defaults se globals f (below_view (enter_macro st fidx dfr) fidx) params = Ok (dvals, st_d) ->
    (length args <= length params)%nat ->
    frame_at (rejoin (frames_above (enter_macro st fidx dfr) fidx) st_d) fidx = Some dfr1 ->
    exec_nodes se globals f
      (push_frame (rejoin (frames_above (enter_macro st fidx dfr) fidx) st_d)
                  (macro_frame dfr1 dvals params args)) body = (out, Ok st2) ->
    call_macro se globals (S f) st (Macro mname params body ex) fidx args =
      Ok (as_safe_value (VStr out), leave_macro st2 fidx).
  Proof.
    intros f st mname params body ex fidx args dfr dvals st_d dfr1 out st2 Hfr Hd Hdef Hlen Hfr1 Hb.
    rewrite call_macro_S, Hfr.
    destruct (Z.ltb_spec max_macro_depth (f_depth dfr + 1)); [lia|].
    cbv zeta. rewrite Hdef.
    destruct (Nat.ltb_spec (length params) (length args)); [lia|].
    rewrite Hfr1, Hb. reflexivity.
  Qed.

  (* defaults that evaluate without side effect *)
  Definition default_from (f0 : nat) (st : mstate) (p : str * option expr) (v : value) : Prop :=
    match snd p with
    | None => v = as_value VNil
    | Some e => evals_from se globals f0 st e v
    end.

  Lemma defaults_common : forall st params ds,
    Forall2 (default_evals se globals st) params ds -> exists f0, Forall2 (default_from f0 st) params ds.
  Proof.
    intros st params ds H; induction H as [|p v params ds Hp _ [f2 IH]].
    - exists O; constructor.
    - assert (H1 : exists f1, default_from f1 st p v).
      { unfold default_evals, default_from in *. destruct (snd p) as [e|].
        - destruct Hp as [f1 H1]. exists f1. exact H1.
        - exists O; exact Hp. }
      destruct H1 as [f1 H1].
      exists (Nat.max f1 f2); constructor.
      + unfold default_from in *. destruct (snd p); [|exact H1]. intros f Hf; apply H1; lia.
      + clear -IH. induction IH as [|a b l l' Hab _ IH']; constructor; [|exact IH'].
        unfold default_from in *. destruct (snd a); [|exact Hab]. intros f Hf; apply Hab; lia.
  Qed.

  Lemma macro_defaults_from : forall f0 st params ds,
    Forall2 (default_from f0 st) params ds ->
    forall f, (f0 + length params < f)%nat ->
      macro_defaults se globals f st params = Ok (default_bindings params ds, st).
  Proof.
    intros f0 st params ds H; induction H as [|[name d] v params ds Hp _ IH]; intros f Hf.
    - destruct f as [|f]; [lia|]. reflexivity.
    - destruct f as [|f]; [lia|]. cbn [length] in Hf.
      unfold default_from in Hp; cbn [snd] in Hp. destruct d as [e|].
      + rewrite macro_defaults_S_some, (Hp f) by lia. cbn [bind].
        rewrite IH by lia. reflexivity.
      + rewrite macro_defaults_S_none, IH by lia. subst v. reflexivity.
  Qed.

  Lemma macro_defaults_pure : forall st params ds,
    Forall2 (default_evals se globals st) params ds ->
    exists f0, forall f, (f0 <= f)%nat ->
      macro_defaults se globals f st params = Ok (default_bindings params ds, st).
  Proof.
    intros st params ds H. destruct (defaults_common _ _ _ H) as [f0 H0].
    exists (S (f0 + length params)); intros f Hf. apply (macro_defaults_from f0); [exact H0|lia].
  Qed.

  (* the call when the defaults evaluate without side effect: everything about it *)
  Lemma macro_call_pure : forall st mname params body ex fidx args dfr ds,
    frame_at st fidx = Some dfr ->
    (f_depth dfr + 1 <= max_macro_depth)%Z ->
    Forall2 (default_evals se globals (below_view (enter_macro st fidx dfr) fidx)) params ds ->
    (length args <= length params)%nat ->
    exists f0, forall f, (f0 <= f)%nat ->
      call_macro se globals (S f) st (Macro mname params body ex) fidx args =
        match exec_nodes se globals f
                (push_frame (enter_macro st fidx dfr)
                   (macro_frame (with_depth dfr (f_depth dfr + 1)) (default_bindings params ds) params args))
                body with
        | (out, Ok st2) => Ok (as_safe_value (VStr out), leave_macro st2 fidx)
        | (_, Err k) => Err 3
        | (_, Unmod) => Unmod
        | (_, Fuel) => Fuel
        | (_, Panic s) => Panic s
        end.
  Proof.
    intros st mname params body ex fidx args dfr ds Hfr Hd Hdef Hlen.
    destruct (macro_defaults_pure _ _ _ Hdef) as [f0 H0].
    exists f0; intros f Hf.
    rewrite call_macro_S, Hfr.
    destruct (Z.ltb_spec max_macro_depth (f_depth dfr + 1)); [lia|].
    cbv zeta. rewrite (H0 f Hf), rejoin_view.
    destruct (Nat.ltb_spec (length params) (length args)); [lia|].
    unfold enter_macro at 1. rewrite (frame_at_set_same _ _ _ _ Hfr). reflexivity.
  Qed.

  (* ---------- too many arguments ---------- *)
  Lemma too_many_args : forall fuel st m fidx args r,
    (length (macro_params m) < length args)%nat ->
    call_macro se globals fuel st m fidx args <> Ok r.
  Proof.
    intros [|f] st [mname params body ex] fidx args r Hlen; [discriminate|].
    cbn [macro_params] in Hlen. rewrite call_macro_S.
    destruct (frame_at st fidx) as [dfr|]; [|discriminate].
    destruct (max_macro_depth <? f_depth dfr + 1)%Z; [discriminate|]. cbv zeta.
    destruct (macro_defaults se globals f _ params) as [[dvals st_d]| | | |]; try discriminate.
    destruct (Nat.ltb_spec (length params) (length args)); [discriminate|lia].
  Qed.

  Lemma too_many_args_err : forall f st mname params body ex fidx args dfr dvals st_d,
    (length params < length args)%nat ->
    frame_at st fidx = Some dfr ->
    macro_defaults se globals f (below_view (enter_macro st fidx dfr) fidx) params = Ok (dvals, st_d) ->
    call_macro se globals (S f) st (Macro mname params body ex) fidx args = Err 3.
  Proof.
    intros f st mname params body ex fidx args dfr dvals st_d Hlen Hfr Hdef.
    rewrite call_macro_S, Hfr.
    destruct (max_macro_depth <? f_depth dfr + 1)%Z; [reflexivity|]. cbv zeta. rewrite Hdef.
    destruct (Nat.ltb_spec (length params) (length args)); [reflexivity|lia].
  Qed.

  (* ---------- the result is safe text ---------- *)
  Lemma result_safe : forall fuel st m fidx args v st',
    call_macro se globals fuel st m fidx args = Ok (v, st') ->
    vsafe v = true /\ exists out, vv v = VStr out.
  Proof.
    intros [|f] st [mname params body ex] fidx args v st' H; [discriminate|].
    rewrite call_macro_S in H.
    destruct (frame_at st fidx) as [dfr|]; [|discriminate].
    destruct (max_macro_depth <? f_depth dfr + 1)%Z; [discriminate|]. cbv zeta in H.
    destruct (macro_defaults se globals f _ params) as [[dvals st_d]| | | |]; try discriminate.
    destruct (Nat.ltb (length params) (length args)); [discriminate|].
    destruct (frame_at _ fidx) as [dfr1|]; [|discriminate].
    destruct (exec_nodes se globals f _ body) as [out [st2| | | |]]; try discriminate.
    inversion H; subst. split; [reflexivity|]. exists out; reflexivity.
  Qed.

  (* ---------- depth ---------- *)
  Lemma depth_limit : forall f st mname params body ex fidx args dfr,
    frame_at st fidx = Some dfr ->
    (max_macro_depth <= f_depth dfr)%Z ->
    call_macro se globals (S f) st (Macro mname params body ex) fidx args = Err 3.
  Proof.
    intros f st mname params body ex fidx args dfr Hfr Hd.
    rewrite call_macro_S, Hfr. destruct (Z.ltb_spec max_macro_depth (f_depth dfr + 1)); [reflexivity|lia].
  Qed.

  (* where the body runs: the defining frame counts one level more, the call's own frame is new *)
  Lemma macro_body_state : forall st fidx dfr mfr,
    frame_at st fidx = Some dfr ->
    frame_at (push_frame (enter_macro st fidx dfr) mfr) fidx = Some (with_depth dfr (f_depth dfr + 1))
    /\ top_frame (push_frame (enter_macro st fidx dfr) mfr) = Ok mfr.
  Proof.
    intros st fidx dfr mfr Hfr. split; [|reflexivity].
    rewrite frame_at_push.
    - unfold enter_macro. eapply frame_at_set_same; exact Hfr.
    - unfold enter_macro. rewrite set_frame_at_length. eapply frame_at_lt; exact Hfr.
  Qed.
  Lemma macro_frame_depth : forall dfr dvals params args, f_depth (macro_frame dfr dvals params args) = 0%Z.
  Proof. reflexivity. Qed.
End Macros.

(* ================= (5) runaway recursion, import ================= *)
Section Run.
  Variable se : senv.
  Variable globals : list (str * cval).

  Lemma exec_nodes_S_cons : forall f st n rest,
    exec_nodes se globals (S f) st (n :: rest) =
      match exec_node se globals f st n with
      | (o1, Ok st1) => let '(o2, r) := exec_nodes se globals f st1 rest in (o1 ++ o2, r)
      | (o1, other) => (o1, other)
      end.
  Proof. reflexivity. Qed.
  Lemma exec_nodes_S_nil : forall f st, exec_nodes se globals (S f) st [] = xok [] st.
  Proof. reflexivity. Qed.

  Lemma exec_node_S_var_fail : forall f st e,
    (forall a, eval se globals f st e <> Ok a) ->
    exec_node se globals (S f) st (NVar e) = xfail [] (eval se globals f st e).
  Proof.
    intros f st e H.
    change (exec_node se globals (S f) st (NVar e)) with
      (match eval se globals f st e with
       | Ok (v, st1) =>
           match top_frame st1 with
           | Ok fr =>
               match to_string (vv v) with
               | None => ([], Unmod)
               | Some s =>
                   if negb (filter_applied [115; 97; 102; 101] e) && negb (vsafe v) && is_string (vv v) && f_auto fr
                   then xok (filter_escape s) st1 else xok s st1
               end
           | other => xfail [] other
           end
       | other => xfail [] other
       end).
    destruct (eval se globals f st e) as [a| | | |]; try reflexivity. exfalso; eapply H; reflexivity.
  Qed.

  Lemma eval_list_S_nil : forall f st, eval_list se globals (S f) st [] = Ok ([], st).
  Proof. reflexivity. Qed.

  Lemma resolve_S_ident : forall f st name call rest,
    resolve se globals (S f) st (PIdent name call :: rest) =
      (do fr <- top_frame st;
       let entry := match ctx_get name (f_priv fr) with
                    | Some c => Some c
                    | None => ctx_get name (f_pub fr)
                    end in
       match entry with
       | None => Ok (as_value VNil, st)
       | Some (CV v) =>
           match vv v with
           | VNil => Ok (as_value VNil, st)
           | _ =>
               match call with
               | Some _ => xerr
               | None => walk se globals f st (vv v) (vsafe v) rest
               end
           end
       | Some (CMacro m fidx) =>
           do '(args, st1) <- eval_list se globals f st (match call with Some a => a | None => [] end);
           do '(r, st2) <- call_macro se globals f st1 m fidx args;
           walk se globals f st2 (vv r) (vsafe r) rest
       | Some (CBlock fidx wrappers) =>
           match rest with
           | [PIdent meth mcall] =>
               if str_eqb meth [83; 117; 112; 101; 114] then
                 match mcall with
                 | Some (_ :: _) => xerr
                 | _ => call_super se globals f st fidx wrappers
                 end
               else Unmod
           | _ => Unmod
           end
       | Some (CCycle _ _ _ _) => Unmod
       end).
  Proof. reflexivity. Qed.

  Lemma resolve_S_macro : forall f st fr name cargs rest m fidx,
    top_frame st = Ok fr ->
    ctx_get name (f_priv fr) = Some (CMacro m fidx) ->
    resolve se globals (S f) st (PIdent name (Some cargs) :: rest) =
      (do '(args, st1) <- eval_list se globals f st cargs;
       do '(r, st2) <- call_macro se globals f st1 m fidx args;
       walk se globals f st2 (vv r) (vsafe r) rest).
  Proof. intros f st fr name cargs rest m fidx Hfr Hc. rewrite resolve_S_ident, Hfr. cbn [bind]. rewrite Hc. reflexivity. Qed.

  (* runaway recursion among parameterless macros bound in one frame: an execution error *)
  Lemma runaway_bounded : forall (P : macro -> Prop) fidx n st dfr m,
    frame_at st fidx = Some dfr ->
    loops_in (f_priv dfr) fidx P -> P m ->
    (max_macro_depth - f_depth dfr <= Z.of_nat n)%Z ->
    forall f, (5 * n + 1 <= f)%nat ->
      call_macro se globals f st m fidx [] = Err 3.
  Proof.
    intros P fidx n; induction n as [|n IH]; intros st dfr m Hfr Hloop HP Hd f Hf.
    - destruct (Hloop m HP) as (name & callee & ex & m' & Em & _ & _). subst m.
      destruct f as [|f]; [lia|]. apply (depth_limit se globals _ _ _ _ _ _ _ _ dfr Hfr). lia.
    - destruct (Hloop m HP) as (name & callee & ex & m' & Em & Hc & HP'). subst m.
      destruct f as [|f1]; [lia|].
      rewrite call_macro_S, Hfr.
      destruct (Z.ltb_spec max_macro_depth (f_depth dfr + 1)); [reflexivity|].
      cbv zeta.
      destruct f1 as [|f2]; [lia|].
      rewrite macro_defaults_S_nil, rejoin_view.
      change (Nat.ltb (length (@nil (str * option expr))) (length (@nil value))) with false. cbv iota.
      unfold enter_macro at 1. rewrite (frame_at_set_same _ _ _ _ Hfr).
      fold (enter_macro st fidx dfr).
      set (dfr' := with_depth dfr (f_depth dfr + 1)).
      set (mfr := macro_frame dfr' [] [] []).
      set (stB := push_frame (enter_macro st fidx dfr) mfr).
      destruct (macro_body_state st fidx dfr mfr Hfr) as [HfrB HtopB]. fold stB in HfrB, HtopB. fold dfr' in HfrB.
      assert (Hcall : forall f5, (5 * n + 1 <= f5)%nat -> call_macro se globals f5 stB m' fidx [] = Err 3).
      { intros f5 Hf5. apply (IH stB dfr' m' HfrB); auto.
        unfold dfr'; cbn [f_depth with_depth]. lia. }
      destruct f2 as [|f3]; [lia|]. destruct f3 as [|f4]; [lia|]. destruct f4 as [|f5]; [lia|].
      destruct f5 as [|f6]; [lia|].
      assert (Hev : eval se globals (S (S (S f6))) stB (EVar [PIdent callee (Some [])]) = Err 3).
      { change (eval se globals (S (S (S f6))) stB (EVar [PIdent callee (Some [])]))
          with (resolve se globals (S (S f6)) stB [PIdent callee (Some [])]).
        rewrite (resolve_S_macro _ _ mfr _ _ _ m' fidx HtopB) by exact Hc.
        rewrite eval_list_S_nil. cbn [bind]. rewrite Hcall by lia. reflexivity. }
      rewrite exec_nodes_S_cons. unfold call_node.
      rewrite exec_node_S_var_fail by (rewrite Hev; discriminate).
      rewrite Hev. reflexivity.
  Qed.

  Lemma runaway_recursion : forall (P : macro -> Prop) fidx st dfr m,
    frame_at st fidx = Some dfr ->
    loops_in (f_priv dfr) fidx P -> P m ->
    exists f0, forall f, (f0 <= f)%nat -> call_macro se globals f st m fidx [] = Err 3.
  Proof.
    intros P fidx st dfr m Hfr Hl HP.
    exists (5 * Z.to_nat (max_macro_depth - f_depth dfr) + 1)%nat; intros f Hf.
    apply (runaway_bounded P fidx (Z.to_nat (max_macro_depth - f_depth dfr)) st dfr m); auto. lia.
  Qed.

  (* ---------- import ---------- *)
  Lemma exec_node_S_macro : forall f st m,
    exec_node se globals (S f) st (NMacro m) =
      match set_priv st (macro_name m) (CMacro m (cur_index st)) with
      | Ok st1 => xok [] st1
      | other => xfail [] other
      end.
  Proof. intros f st [n ps b e]; reflexivity. Qed.

  Lemma exec_node_S_import : forall f st ms,
    exec_node se globals (S f) st (NImport ms) =
      match top_frame st with
      | Ok fr =>
          xok [] (set_top st (with_priv fr (ctx_update (f_priv fr)
                                   (map (fun am => (fst am, CMacro (snd am) (cur_index st))) ms))))
      | other => xfail [] other
      end.
  Proof. reflexivity. Qed.

  Lemma macro_local : forall f st fr m,
    top_frame st = Ok fr ->
    exec_node se globals (S f) st (NMacro m) = xok [] (bind_macro st fr (macro_name m) m).
  Proof.
    intros f st fr m Hfr. rewrite exec_node_S_macro. unfold set_priv. rewrite Hfr. reflexivity.
  Qed.
  Lemma macro_imported : forall f st fr alias m,
    top_frame st = Ok fr ->
    exec_node se globals (S f) st (NImport [(alias, m)]) = xok [] (bind_macro st fr alias m).
  Proof. intros f st fr alias m Hfr. rewrite exec_node_S_import, Hfr. reflexivity. Qed.

  Lemma import_equals_local : forall fuel st m,
    exec_node se globals fuel st (NImport [(macro_name m, m)]) = exec_node se globals fuel st (NMacro m).
  Proof.
    intros [|f] st m; [reflexivity|].
    rewrite exec_node_S_macro, exec_node_S_import. unfold set_priv.
    destruct (top_frame st); reflexivity.
  Qed.

  (* the name a macro was defined under plays no role in calling it *)
  Lemma call_macro_name_irrelevant : forall fuel st n n' ps b e e' fidx args,
    call_macro se globals fuel st (Macro n ps b e) fidx args =
    call_macro se globals fuel st (Macro n' ps b e') fidx args.
  Proof. intros [|f] st n n' ps b e e' fidx args; reflexivity. Qed.

  Lemma set_top_set_top : forall st a b, set_top (set_top st a) b = set_top st b.
  Proof. intros [[|fr frs] nodes g] a b; reflexivity. Qed.
  Lemma set_top_same : forall st fr, top_frame st = Ok fr -> set_top st (with_priv fr (f_priv fr)) = st.
  Proof.
    intros [[|fr0 frs] nodes g] fr H; [discriminate|]. cbn in H. inversion H; subst. destruct fr; reflexivity.
  Qed.
  Lemma cur_index_set_top : forall st fr, cur_index (set_top st fr) = cur_index st.
  Proof. intros [[|fr0 frs] nodes g] fr; reflexivity. Qed.

  (* importing several macros under their own names is defining them one after the other *)
  Lemma import_many : forall ms f f' st fr,
    top_frame st = Ok fr ->
    (forall am, In am ms -> fst am = macro_name (snd am)) ->
    exec_node se globals (S f) st (NImport ms) =
    exec_nodes se globals (S (length ms) + f') st (map (fun am => NMacro (snd am)) ms).
  Proof.
    intros ms f f' st fr Hfr Hn. rewrite exec_node_S_import, Hfr.
    revert st fr Hfr Hn. induction ms as [|[alias m] ms IH]; intros st fr Hfr Hn.
    - cbn [map length Nat.add ctx_update fold_left]. rewrite exec_nodes_S_nil, set_top_same by exact Hfr. reflexivity.
    - cbn [map length snd]. change (S (S (length ms)) + f')%nat with (S (S (length ms) + f')).
      rewrite exec_nodes_S_cons.
      change (exec_node se globals (S (length ms) + f') st (NMacro m))
        with (exec_node se globals (S (length ms + f')) st (NMacro m)).
      rewrite (macro_local _ _ fr) by exact Hfr.
      assert (Ea : alias = macro_name m) by (apply (Hn (alias, m)); left; reflexivity). subst alias.
      set (st1 := bind_macro st fr (macro_name m) m).
      assert (Hfr1 : top_frame st1 = Ok (with_priv fr (ctx_set (macro_name m) (CMacro m (cur_index st)) (f_priv fr)))).
      { unfold st1, bind_macro. eapply top_frame_set_top; exact Hfr. }
      specialize (IH st1 _ Hfr1 (fun am H => Hn am (or_intror H))).
      unfold xok in *. cbv beta iota. rewrite <- IH. cbn [app map fst snd ctx_update fold_left f_priv with_priv].
      unfold st1, bind_macro. rewrite set_top_set_top, cur_index_set_top. reflexivity.
  Qed.
End Run.

(* ================= (6) worked corollaries ================= *)
Lemma for_output_ints : forall g idx zs,
  (forall i z, g i (plain_item (VInt z)) = itoa z) ->
  for_output g idx (map plain_item (map VInt zs)) = concat (map itoa zs).
Proof.
  intros g idx zs Hg; revert idx; induction zs as [|z zs IH]; intros idx; [reflexivity|].
  cbn [map for_output concat]. rewrite Hg, IH. reflexivity.
Qed.

Lemma for_output_const : forall t idx (items : list item),
  for_output (fun _ _ => t) idx items = concat (map (fun _ => t) items).
Proof.
  intros t idx items; revert idx; induction items as [|x items IH]; intros idx; [reflexivity|].
  cbn [map for_output concat]. rewrite IH. reflexivity.
Qed.

Section Extras.
  Variable se : senv.
  Variable globals : list (str * cval).

  (* a body that leaves the state of its iteration as it found it *)
  Lemma for_stateless_body : forall st fr key value obj reversed sorted body empty ov items
                                    (g : Z -> item -> str),
    top_frame st = Ok fr ->
    evals_pure se globals (push_frame st (for_frame fr)) obj ov ->
    iter_items (vv ov) reversed sorted = Ok (Some items) -> items <> [] ->
    (exists fb, forall f, (fb <= f)%nat -> forall st' fr' x idx,
        In x items -> top_frame st' = Ok fr' ->
        exec_nodes se globals f
          (for_state st' fr' key value x idx (Z.of_nat (length items)) (for_parent fr)) body
        = (g idx x, Ok (for_state st' fr' key value x idx (Z.of_nat (length items)) (for_parent fr)))) ->
    exists f0, forall f, (f0 <= f)%nat ->
      exec_node se globals f st (NFor key value obj reversed sorted body empty)
        = (for_output g 0 items, Ok st).
  Proof.
    intros st fr key value obj r s body empty ov items g Hfr [fe He] Hi Hne [fb Hb].
    set (st1 := push_frame st (for_frame fr)) in *.
    set (Inv := fun (_ : Z) (st' : mstate) =>
                  ms_frames st' <> [] /\ tl (ms_frames st') = ms_frames st /\
                  ms_nodes st' = ms_nodes st /\ ms_g st' = ms_g st).
    destruct (for_renders_each se globals st fr key value obj r s body empty ov st1 items Inv g fe fb
                Hfr He Hi Hne) as [f0 H0].
    - intros idx st' (Hn & _). unfold top_frame. destruct (ms_frames st') as [|fr' frs]; [congruence|].
      exists fr'; reflexivity.
    - intros f Hf idx st' fr' x (Hn & Ht & Hnd & Hg) Hfr' Hx.
      eexists; split; [apply Hb; assumption|].
      unfold Inv, for_state, set_top. unfold top_frame in Hfr'.
      destruct (ms_frames st') as [|fr0 frs]; [discriminate|]. cbn [ms_frames ms_nodes ms_g tl] in *.
      repeat split; auto. discriminate.
    - unfold Inv, st1, push_frame; cbn [ms_frames ms_nodes ms_g tl]. repeat split; auto. discriminate.
    - exists f0; intros f Hf. destruct (H0 f Hf) as (st2 & Hx & (Hn & Ht & Hnd & Hg)).
      rewrite Hx. f_equal. f_equal. unfold pop_frame. rewrite Ht, Hnd, Hg. destruct st; reflexivity.
  Qed.

  (* instance: a body of constant text (here: a templatetag node) *)
  Lemma templatetag_body_const : forall f st t,
    exec_nodes se globals (S (S f)) st [NTemplatetag t] = (t, Ok st).
  Proof.
    intros f st t. rewrite exec_nodes_S_cons.
    change (exec_node se globals (S f) st (NTemplatetag t)) with (xok t st). unfold xok.
    destruct f; (rewrite ?exec_nodes_S_nil; unfold xok; rewrite app_nil_r; reflexivity).
  Qed.

  Lemma exec_node_S_var : forall f st e,
    exec_node se globals (S f) st (NVar e) =
      match eval se globals f st e with
      | Ok (v, st1) =>
          match top_frame st1 with
          | Ok fr =>
              match to_string (vv v) with
              | None => ([], Unmod)
              | Some s =>
                  if negb (filter_applied [115; 97; 102; 101] e) && negb (vsafe v) && is_string (vv v) && f_auto fr
                  then xok (filter_escape s) st1 else xok s st1
              end
          | other => xfail [] other
          end
      | other => xfail [] other
      end.
  Proof. reflexivity. Qed.

  (* instance: the body {{ key }} over integer items prints them *)
  Lemma print_key_int : forall f st fr key z,
    top_frame st = Ok fr ->
    ctx_get key (f_priv fr) = Some (CV (as_value (VInt z))) ->
    exec_nodes se globals (5 + f) st [NVar (EVar [PIdent key None])] = (itoa z, Ok st).
  Proof.
    intros f st fr key z Hfr Hc. change (5 + f)%nat with (S (S (S (S (S f))))).
    rewrite exec_nodes_S_cons, exec_node_S_var, eval_S_var.
    rewrite (resolve_S_data se globals _ _ fr _ _ _ Hfr Hc) by discriminate.
    cbn [vv vsafe as_value]. rewrite walk_S_nil, Hfr. cbn [vv to_string is_string].
    rewrite Bool.andb_false_r. cbn [andb]. unfold xok. rewrite exec_nodes_S_nil. unfold xok.
    rewrite app_nil_r. reflexivity.
  Qed.

  Lemma for_prints_int_items : forall st fr key obj reversed sorted empty ov items,
    key <> n_forloop ->
    top_frame st = Ok fr ->
    evals_pure se globals (push_frame st (for_frame fr)) obj ov ->
    iter_items (vv ov) reversed sorted = Ok (Some items) -> items <> [] ->
    Forall (fun x : item => exists z, x = plain_item (VInt z)) items ->
    exists f0, forall f, (f0 <= f)%nat ->
      exec_node se globals f st (NFor key [] obj reversed sorted [NVar (EVar [PIdent key None])] empty)
        = (for_output (fun _ x => match fst x with VInt z => itoa z | _ => [] end) 0 items, Ok st).
  Proof.
    intros st fr key obj r s empty ov items Hk Hfr He Hi Hne Hall.
    apply (for_stateless_body st fr key [] obj r s _ empty ov items _ Hfr He Hi Hne).
    exists 5%nat; intros f Hf st' fr' x idx Hx Hfr'.
    rewrite Forall_forall in Hall. destruct (Hall x Hx) as [z Ez]. subst x.
    destruct (for_state_top st' fr' key [] (plain_item (VInt z)) idx (Z.of_nat (length items)) (for_parent fr) Hfr')
      as (fr2 & Hfr2 & Hp2 & _).
    replace f with (5 + (f - 5))%nat by lia.
    rewrite (print_key_int _ _ fr2 key z Hfr2); [reflexivity|].
    rewrite Hp2. apply for_bind_key; [exact Hk|left; reflexivity].
  Qed.

  Lemma plain_ints_all : forall zs,
    Forall (fun x : item => exists z, x = plain_item (VInt z)) (map plain_item (map VInt zs)).
  Proof. induction zs as [|z zs IH]; cbn [map]; constructor; eauto. Qed.

  (* {% for x in l %}{{ x }}{% endfor %} over a list of integers: in order, reversed, sorted *)
  Lemma for_prints_ints : forall st fr key obj empty ov zs reversed,
    key <> n_forloop -> zs <> [] ->
    top_frame st = Ok fr ->
    evals_pure se globals (push_frame st (for_frame fr)) obj ov ->
    vv ov = VList (map VInt zs) ->
    exists f0, forall f, (f0 <= f)%nat ->
      exec_node se globals f st (NFor key [] obj reversed false [NVar (EVar [PIdent key None])] empty)
        = (concat (map itoa (if reversed then rev zs else zs)), Ok st).
  Proof.
    intros st fr key obj empty ov zs r Hk Hz Hfr He Hv.
    set (zs' := if r then rev zs else zs).
    assert (Hi : iter_items (vv ov) r false = Ok (Some (map plain_item (map VInt zs')))).
    { rewrite Hv. unfold zs'. destruct r; [rewrite iter_list_reversed, <- map_rev|rewrite iter_list_in_order]; reflexivity. }
    assert (Hne : map plain_item (map VInt zs') <> []).
    { unfold zs'. destruct zs as [|z zs0]; [congruence|]. destruct r; [|discriminate].
      cbn [rev]. destruct (rev zs0); discriminate. }
    destruct (for_prints_int_items st fr key obj r false empty ov _ Hk Hfr He Hi Hne (plain_ints_all zs'))
      as [f0 H0].
    exists f0; intros f Hf. rewrite (H0 f Hf). f_equal. apply for_output_ints. reflexivity.
  Qed.

  Lemma for_prints_ints_sorted : forall st fr key obj empty ov zs reversed,
    key <> n_forloop -> zs <> [] ->
    top_frame st = Ok fr ->
    evals_pure se globals (push_frame st (for_frame fr)) obj ov ->
    vv ov = VList (map VInt zs) ->
    exists s, Permutation zs s /\ StronglySorted Z.le s /\
      exists f0, forall f, (f0 <= f)%nat ->
        exec_node se globals f st (NFor key [] obj reversed true [NVar (EVar [PIdent key None])] empty)
          = (concat (map itoa (if reversed then rev s else s)), Ok st).
  Proof.
    intros st fr key obj empty ov zs r Hk Hz Hfr He Hv.
    destruct (iter_list_sorted_ints zs r) as (s & Hperm & Hsorted & Hi).
    exists s; split; [exact Hperm|]. split; [exact Hsorted|].
    set (zs' := if r then rev s else s) in *.
    rewrite <- Hv in Hi.
    assert (Hne : map plain_item (map VInt zs') <> []).
    { assert (Hs : s <> []).
      { intro E; subst s. apply Permutation_sym, Permutation_nil in Hperm. congruence. }
      unfold zs'. destruct s as [|z s0]; [congruence|]. destruct r; [|discriminate].
      cbn [rev]. destruct (rev s0); discriminate. }
    destruct (for_prints_int_items st fr key obj r true empty ov _ Hk Hfr He Hi Hne (plain_ints_all zs'))
      as [f0 H0].
    exists f0; intros f Hf. rewrite (H0 f Hf). f_equal. apply for_output_ints. reflexivity.
  Qed.

  (* cycle over string literals *)
  Lemma cycle_round_robin_literals : forall f fr id ss k st p,
    ss <> [] ->
    top_frame st = Ok fr ->
    cycle_pos st (f_exec fr) id = Z.of_nat p ->
    exists st', exec_times se globals (S (S f)) st (NCycle id (map EStr ss) [] false) k
                  = (round_robin (fun j => if f_auto fr then filter_escape (nth j ss []) else nth j ss [])
                                 (length ss) p k, Ok st')
                /\ ms_frames st' = ms_frames st
                /\ cycle_pos st' (f_exec fr) id = Z.of_nat (p + k).
  Proof.
    intros f fr id ss k st p Hne Hfr Hp.
    rewrite <- (map_length EStr ss).
    apply (cycle_round_robin se globals (S f) fr id (map EStr ss) _ (ms_frames st)); auto.
    - destruct ss; [congruence|discriminate].
    - intros a Ha. apply in_map_iff in Ha. destruct Ha as (s & Es & _). subst a. reflexivity.
    - intros st' _ j Hj. rewrite map_length in Hj.
      rewrite (nth_indep _ (EBool false) (EStr []) ) by (rewrite map_length; exact Hj).
      rewrite (map_nth EStr ss [] j).
      exists (as_value (VStr (nth j ss []))), (nth j ss []). split; [reflexivity|]. split; [reflexivity|].
      unfold cycle_text. cbn [vsafe vv as_value is_string filter_applied negb].
      rewrite !Bool.andb_true_r. reflexivity.
  Qed.
End Extras.

(* ================= (7) instances: the hypotheses above are satisfiable ================= *)
Section Instances.
  Variable se : senv.
  Variable globals : list (str * cval).

  (* direct recursion:  {% macro m() %}{{ m() }}{% endmacro %} *)
  Lemma runaway_direct : forall name ex st fidx dfr,
    frame_at st fidx = Some dfr ->
    ctx_get name (f_priv dfr) = Some (CMacro (Macro name [] [call_node name] ex) fidx) ->
    exists f0, forall f, (f0 <= f)%nat ->
      call_macro se globals f st (Macro name [] [call_node name] ex) fidx [] = Err 3.
  Proof.
    intros name ex st fidx dfr Hfr Hc.
    apply (runaway_recursion se globals (fun m => m = Macro name [] [call_node name] ex) fidx st dfr); auto.
    intros m Em. subst m. exists name, name, ex, (Macro name [] [call_node name] ex). auto.
  Qed.

  (* mutual recursion:  a() calls b(), b() calls a() *)
  Lemma runaway_mutual : forall n1 n2 e1 e2 st fidx dfr,
    frame_at st fidx = Some dfr ->
    ctx_get n1 (f_priv dfr) = Some (CMacro (Macro n1 [] [call_node n2] e1) fidx) ->
    ctx_get n2 (f_priv dfr) = Some (CMacro (Macro n2 [] [call_node n1] e2) fidx) ->
    exists f0, forall f, (f0 <= f)%nat ->
      call_macro se globals f st (Macro n1 [] [call_node n2] e1) fidx [] = Err 3 /\
      call_macro se globals f st (Macro n2 [] [call_node n1] e2) fidx [] = Err 3.
  Proof.
    intros n1 n2 e1 e2 st fidx dfr Hfr H1 H2.
    set (m1 := Macro n1 [] [call_node n2] e1) in *. set (m2 := Macro n2 [] [call_node n1] e2) in *.
    assert (Hl : loops_in (f_priv dfr) fidx (fun m => m = m1 \/ m = m2)).
    { intros m [E|E]; subst m.
      - exists n1, n2, e1, m2. auto.
      - exists n2, n1, e2, m1. auto. }
    destruct (runaway_recursion se globals _ fidx st dfr m1 Hfr Hl (or_introl eq_refl)) as [fa Ha].
    destruct (runaway_recursion se globals _ fidx st dfr m2 Hfr Hl (or_intror eq_refl)) as [fb Hb].
    exists (Nat.max fa fb); intros f Hf. split; [apply Ha|apply Hb]; lia.
  Qed.

  (* literals evaluate without side effect in every state *)
  Lemma lit_pure_int : forall st z, evals_pure se globals st (EInt z) (as_value (VInt z)).
  Proof. intros st z; exists 1%nat; intros [|f] Hf; [lia|reflexivity]. Qed.
  Lemma lit_pure_bool : forall st b, evals_pure se globals st (EBool b) (as_value (VBool b)).
  Proof. intros st b; exists 1%nat; intros [|f] Hf; [lia|reflexivity]. Qed.
  Lemma lit_pure_str : forall st s, evals_pure se globals st (EStr s) (as_value (VStr s)).
  Proof. intros st s; exists 1%nat; intros [|f] Hf; [lia|reflexivity]. Qed.

  (* {% if false %}..{% elif 0 %}..{% elif "x" %}..{% elif <anything> %}: the third branch *)
  Lemma ex_if_hyps : forall st (crash : expr),
    let conds := [EBool false; EInt 0; EStr [120]; crash] in
    let vs := [as_value (VBool false); as_value (VInt 0); as_value (VStr [120])] in
    prefix_evals se globals st conds vs /\ first_true (map truth vs) = Some 2%nat.
  Proof.
    intros st crash conds vs. split; [|reflexivity].
    unfold prefix_evals, conds, vs. cbn [length firstn].
    repeat constructor; [apply lit_pure_bool|apply lit_pure_int|apply lit_pure_str].
  Qed.

  (* a list literal of integers evaluates without side effect in every state *)
  Lemma int_array_pure : forall st zs,
    evals_pure se globals st (EArray (map EInt zs)) (as_value (VList (map VInt zs))).
  Proof.
    intros st zs. exists (S (S (length zs))); intros f Hf.
    destruct f as [|f]; [lia|].
    change (eval se globals (S f) st (EArray (map EInt zs)))
      with (do '(vs, st1) <- eval_list se globals f st (map EInt zs); Ok (as_value (VList (map vv vs)), st1)).
    assert (H : forall f, (length zs < f)%nat ->
              eval_list se globals f st (map EInt zs) = Ok (map (fun z => as_value (VInt z)) zs, st)).
    { clear. induction zs as [|z zs IH]; intros f Hf; (destruct f as [|f]; [cbn in Hf; lia|]); [reflexivity|].
      cbn [map length] in *.
      change (eval_list se globals (S f) st (EInt z :: map EInt zs))
        with (do '(v, st1) <- eval se globals f st (EInt z);
              do '(vs, st2) <- eval_list se globals f st1 (map EInt zs); Ok (v :: vs, st2)).
      destruct f as [|f]; [lia|].
      change (eval se globals (S f) st (EInt z)) with (@Ok (value * mstate) (as_value (VInt z), st)).
      cbn [bind]. rewrite IH by lia. reflexivity. }
    rewrite H by lia. cbn [bind]. rewrite map_map. reflexivity.
  Qed.

  (* {% for x in [3, 1, 2] reversed %}{{ x }}{% endfor %} prints 213 and leaves the state alone *)
  Lemma ex_for_prints : forall st fr,
    top_frame st = Ok fr ->
    exists f0, forall f, (f0 <= f)%nat ->
      exec_node se globals f st
        (NFor [120] [] (EArray [EInt 3; EInt 1; EInt 2]) true false [NVar (EVar [PIdent [120] None])] None)
      = ([50; 49; 51], Ok st).
  Proof.
    intros st fr Hfr.
    destruct (for_prints_ints se globals st fr [120] (EArray (map EInt [3; 1; 2]%Z)) None
                (as_value (VList (map VInt [3; 1; 2]%Z))) [3; 1; 2]%Z true) as [f0 H0];
      try discriminate; auto.
    - apply int_array_pure.
    - exists f0. exact H0.
  Qed.

  (* a macro  m(a, b=2)  called with one argument, from a frame that is not inside a call *)
  Lemma ex_macro_hyps : forall st (fidx : nat) (dfr : frame),
    f_depth dfr = 0%Z ->
    let params := [([97], None); ([98], Some (EInt 2))] in
    let ds := [as_value VNil; as_value (VInt 2)] in
    let args := [as_value (VInt 1)] in
    Forall2 (default_evals se globals (below_view (enter_macro st fidx dfr) fidx)) params ds /\
    NoDup (map fst params) /\ (length args <= length params)%nat /\
    ctx_get [97] (macro_ctx (f_priv dfr) (default_bindings params ds) params args) = Some (CV (as_value (VInt 1))) /\
    ctx_get [98] (macro_ctx (f_priv dfr) (default_bindings params ds) params args) = Some (CV (as_value (VInt 2))).
  Proof.
    intros st fidx dfr Hd params ds args.
    assert (Hnd : NoDup (map fst params)).
    { unfold params; cbn [map fst]. constructor; [|constructor; [|constructor]]; cbn; intuition discriminate. }
    split; [|split; [exact Hnd|split; [cbn; lia|split]]].
    - unfold params, ds. constructor; [reflexivity|]. constructor; [|constructor].
      unfold default_evals; cbn [snd]. apply lit_pure_int.
    - apply (macro_ctx_arg _ params ds args 0 [97] None (as_value (VInt 1))); auto.
    - apply (macro_ctx_default _ params ds args 1 [98] (Some (EInt 2)) (as_value (VInt 2))); auto.
  Qed.
End Instances.

(* what "fires" means, position by position *)
Lemma ifchanged_fires_true : forall last now,
  ifchanged_fires last now = Some true ->
  last = [] \/ exists i x y, nth_error last i = Some x /\ nth_error now i = Some y /\
                             equal_value_to (vv x) (vv y) = Some false.
Proof.
  intros [|x0 l] now H; [left; reflexivity|right].
  unfold ifchanged_fires in H. destruct (all_equal (x0 :: l) now) as [[|]|] eqn:E; try discriminate.
  apply all_equal_false; exact E.
Qed.
Lemma ifchanged_fires_false : forall last now,
  ifchanged_fires last now = Some false ->
  last <> [] /\ forall i x y, nth_error last i = Some x -> nth_error now i = Some y ->
                              equal_value_to (vv x) (vv y) = Some true.
Proof.
  intros [|x0 l] now H; [discriminate|]. split; [discriminate|].
  unfold ifchanged_fires in H. destruct (all_equal (x0 :: l) now) as [[|]|] eqn:E; try discriminate.
  apply all_equal_true; exact E.
Qed.

(* the four binding facts together *)
Lemma for_bindings : forall key value (x : item) idx count parent priv,
  ctx_get n_forloop (for_bind key value x idx count parent priv)
    = Some (CV (as_value (loop_struct idx count parent)))
  /\ (key <> n_forloop -> (snd x = None \/ key <> value) ->
      ctx_get key (for_bind key value x idx count parent priv) = Some (CV (as_value (fst x))))
  /\ (forall v, snd x = Some v -> value <> n_forloop ->
      ctx_get value (for_bind key value x idx count parent priv) = Some (CV (as_value v)))
  /\ (forall n, n <> n_forloop -> n <> key -> (snd x = None \/ n <> value) ->
      ctx_get n (for_bind key value x idx count parent priv) = ctx_get n priv).
Proof.
  intros key value x idx count parent priv. split; [apply for_bind_forloop|]. split; [|split].
  - intros H1 H2. apply for_bind_key; assumption.
  - intros v H1 H2. apply for_bind_value; assumption.
  - intros n H1 H2 H3. apply for_bind_other; assumption.
Qed.

Lemma macro_import_and_local : forall se globals f st fr alias m,
  top_frame st = Ok fr ->
  exec_node se globals (S f) st (NImport [(alias, m)]) = xok [] (bind_macro st fr alias m) /\
  exec_node se globals (S f) st (NMacro m) = xok [] (bind_macro st fr (macro_name m) m).
Proof. intros; split; [apply macro_imported|apply macro_local]; assumption. Qed.

(* an if node without conditions (the parser never builds one) runs nothing, even if it has a
   wrapper: the else branch is only looked at after the last condition *)
Lemma if_no_conditions : forall se globals f st ws,
  exec_node se globals (S (S f)) st (NIf [] ws) = xok [] st.
Proof. reflexivity. Qed.
