(* Property C02 from the SOURCE TEXT: a source whose tokens contain no opt-out
   (Spec/SpecTaint3.v [scan_tokens], instances [no_optout_tokens] and [no_optout_tokens_m])
   compiles - when it compiles - to a template without opt-outs (Spec/SpecTaint2.v
   [ok_template], [ok_template_m]), for every file the loaders hold likewise; so the hypotheses
   [ok_template] / [lazy_ok] (and [ok_template_m] / [lazy_m]) of Props/C02.v follow from a scan
   of the sources.

   Two inductions on fuel, of the shape of Proofs/WfParse.v (expression parser: the body is
   walked one match at a time under [okp]) and Proofs/Fetch.v (document parser: the one-step
   unfoldings and [crunch] of Proofs/Compose.v; the rest of the token list a parser function
   works on is a SUFFIX of the template's token list, so the scan's verdict on the whole list
   applies to every tag the parser reads).  The second is done once, for any predicate on nodes /
   macros / templates that has the one-step equations [ok_eqs]; Spec/SpecTaint2.v's two
   predicates are the instances (by reflexivity).  If a tag parser changes, regenerate
   Section ParseUnfold of Proofs/Compose.v; a new tag that builds a new kind of node needs a new
   equation in [ok_eqs] and, if its node depends on its arguments, a clause in [tp_special]. *)
From Coq Require Import List NArith ZArith Bool Lia Arith.
From PV Require Import Lib.Outcome Model.Lexer Model.ParseExpr Model.ParseDoc Model.Exec Model.Api.
From PV Require Import Spec.SpecEsc Spec.SpecTaint Spec.SpecTaint2 Spec.SpecTaint3.
From PV Require Import Proofs.Compose Proofs.Fetch.
From PV Require Import gen.Tables.
Import ListNotations.
Open Scope N_scope.

(* ------------------------------------------------------------------------------------ *)
(* "if Ok then P"                                                                        *)
(* ------------------------------------------------------------------------------------ *)
Definition okp {A : Type} (P : A -> Prop) (r : res A) : Prop :=
  match r with Ok a => P a | _ => True end.
Lemma okp_ok : forall (A : Type) (P : A -> Prop) (r : res A) (a : A), okp P r -> r = Ok a -> P a.
Proof. intros A P r a H E. rewrite E in H. exact H. Qed.

(* ------------------------------------------------------------------------------------ *)
(* the part of the scan the expression parser needs: no  | safe                          *)
(* ------------------------------------------------------------------------------------ *)
Fixpoint nsp (ts : list token) : bool :=
  match ts with
  | [] => true
  | t :: r => negb (pipe_safe t r) && nsp r
  end.

Lemma nsp_cons : forall t r, nsp (t :: r) = negb (pipe_safe t r) && nsp r.
Proof. reflexivity. Qed.

Lemma head_ident_app : forall a b s, head_ident a s = true -> head_ident (a ++ b) s = true.
Proof. intros [|t a] b s H; [discriminate H|exact H]. Qed.

(* closed under prefixes and suffixes *)
Lemma nsp_app_l : forall a b, nsp (a ++ b) = true -> nsp a = true.
Proof.
  induction a as [|t a IH]; intros b H; [reflexivity|].
  change ((t :: a) ++ b) with (t :: (a ++ b)) in H. rewrite nsp_cons in *.
  apply andb_prop in H. destruct H as [H1 H2]. rewrite (IH b H2), andb_true_r.
  apply negb_true_iff in H1. apply negb_true_iff.
  unfold pipe_safe in *. destruct (is_sym t y_pipe); [|reflexivity]. cbn [andb] in *.
  destruct (head_ident a n_safe) eqn:E; [|reflexivity].
  rewrite (head_ident_app a b n_safe E) in H1. discriminate H1.
Qed.
Lemma nsp_app_r : forall a b, nsp (a ++ b) = true -> nsp b = true.
Proof.
  induction a as [|t a IH]; intros b H; [exact H|].
  change ((t :: a) ++ b) with (t :: (a ++ b)) in H. rewrite nsp_cons in H.
  apply andb_prop in H. destruct H as [_ H]. exact (IH b H).
Qed.

Section ScanFacts.
  Variable lit : str -> bool.
  Variable fn : list str.
  Variable spl lz : bool.
  Local Notation scan := (scan_tokens lit fn spl lz).

  Lemma scan_cons : forall t r, scan (t :: r) = negb (tok_optout lit fn spl lz t r) && scan r.
  Proof. reflexivity. Qed.

  Lemma scan_app_r : forall a b, scan (a ++ b) = true -> scan b = true.
  Proof.
    induction a as [|t a IH]; intros b H; [exact H|].
    change ((t :: a) ++ b) with (t :: (a ++ b)) in H. rewrite scan_cons in H.
    apply andb_prop in H. destruct H as [_ H]. exact (IH b H).
  Qed.

  Lemma tok_optout_pipe : forall t r, tok_optout lit fn spl lz t r = false -> pipe_safe t r = false.
  Proof.
    intros t r H. unfold tok_optout in H. unfold pipe_safe, is_sym in *.
    destruct (ttyp t); try reflexivity; try (apply orb_false_iff in H; destruct H as [H _]; exact H).
  Qed.

  Lemma scan_nsp : forall ts, scan ts = true -> nsp ts = true.
  Proof.
    induction ts as [|t r IH]; intro H; [reflexivity|].
    rewrite scan_cons in H. apply andb_prop in H. destruct H as [H1 H2].
    rewrite nsp_cons, (IH H2), andb_true_r. apply negb_true_iff in H1.
    rewrite (tok_optout_pipe _ _ H1). reflexivity.
  Qed.
End ScanFacts.

(* ------------------------------------------------------------------------------------ *)
(* walking a parser body                                                                 *)
(* ------------------------------------------------------------------------------------ *)
Definition fc_safe (fc : fcall) : bool := match fc with FCall n _ => str_eqb n n_safe end.

Ltac t3_norm :=
  repeat match goal with
  | H : _ /\ _ |- _ => destruct H
  | H : True |- _ => clear H
  | H : okp _ (Ok _) |- _ => cbn [okp] in H
  | H : context [fst (_, _)] |- _ => progress (cbn [fst snd] in H)
  | H : context [snd (_, _)] |- _ => progress (cbn [fst snd] in H)
  | H : nsp (_ :: _) = true |- _ => rewrite nsp_cons in H
  | H : context [fc_safe (FCall _ _)] |- _ => cbn [fc_safe] in H
  | H : _ && _ = true |- _ => apply andb_prop in H
  | H : negb (pipe_safe ?t ?r) = true, E : is_sym ?t y_pipe = true |- _ =>
      unfold pipe_safe in H; rewrite E in H; cbn [andb] in H; apply negb_true_iff in H
  | H : head_ident (?t :: _) _ = false, E : is_typ ?t TIdentifier = true |- _ =>
      cbn [head_ident] in H; unfold tok_ident in H; rewrite E in H; cbn [andb] in H
  end.

Ltac t3_bool :=
  cbn [okp fst snd filter_applied existsb fc_safe forallb negb andb orb];
  rewrite ?nsp_cons;
  repeat match goal with
         | H : ?x = false |- _ => progress (rewrite H)
         | H : ?x = true |- _ =>
             lazymatch x with true => fail | _ => idtac end; progress (rewrite H)
         end;
  cbn [andb orb negb];
  try reflexivity.

Ltac t3_atom :=
  first [ exact I | assumption | solve [t3_bool]
        | solve [cbn [okp fst snd];
                 repeat match goal with |- context [if ?c then _ else _] => destruct c end;
                 repeat match goal with |- _ /\ _ => split end; first [assumption | t3_bool]] ].
Ltac t3_leaf :=
  t3_norm;
  first [ t3_atom | solve [cbn [okp fst snd]; repeat match goal with |- _ /\ _ => split end; t3_atom] ].

Ltac t3_known :=
  match goal with H : _ |- _ => solve [eapply H; t3_leaf] end.

Ltac t3_destruct x :=
  lazymatch x with
  | context [match ?y with _ => _ end] => t3_destruct y
  | _ =>
      first [ is_var x; destruct x
            | let H := fresh "Hok" in
              eassert (H : okp _ x) by t3_known;
              revert H; destruct x eqn:?; intro H; cbn [okp] in H
            | destruct x eqn:? ]
  end.

Ltac t3_step :=
  lazy beta iota zeta delta [bind perr];
  lazymatch goal with
  | |- okp _ (match ?x with _ => _ end) => t3_destruct x
  | |- okp _ (Ok _) => cbn [okp]; t3_leaf
  | |- okp _ (Err _) => exact I
  | |- okp _ Unmod => exact I
  | |- okp _ Fuel => exact I
  | |- okp _ (Panic _) => exact I
  | |- okp _ _ => t3_known
  end.
Ltac t3_tac := repeat t3_step.

(* ------------------------------------------------------------------------------------ *)
(* The expression parser: no  | safe  in the tokens, no safe filter on the expression    *)
(* ------------------------------------------------------------------------------------ *)
Definition res_e (x : expr * list token) : Prop :=
  filter_applied n_safe (fst x) = false /\ nsp (snd x) = true.

Section Expr.
  Variable cfg : pcfg.

  Definition expr_ok_at (f : nat) : Prop :=
    (forall ts, nsp ts = true -> okp res_e (parse_expression cfg f ts)) /\
    (forall ts, nsp ts = true -> okp res_e (parse_relational cfg f ts)) /\
    (forall ts, nsp ts = true -> okp res_e (parse_simple cfg f ts)) /\
    (forall acc ts, filter_applied n_safe acc = false -> nsp ts = true -> okp res_e (simple_loop cfg f acc ts)) /\
    (forall ts, nsp ts = true -> okp res_e (parse_term cfg f ts)) /\
    (forall acc ts, filter_applied n_safe acc = false -> nsp ts = true -> okp res_e (term_loop cfg f acc ts)) /\
    (forall ts, nsp ts = true -> okp res_e (parse_power cfg f ts)) /\
    (forall ts, nsp ts = true -> okp res_e (parse_factor cfg f ts)) /\
    (forall ts, nsp ts = true -> okp res_e (parse_filtered cfg f ts)) /\
    (forall ts, nsp ts = true ->
       okp (fun x => existsb fc_safe (fst x) = false /\ nsp (snd x) = true) (filter_loop cfg f ts)) /\
    (forall ts, nsp ts = true -> head_ident ts n_safe = false ->
       okp (fun x => fc_safe (fst x) = false /\ nsp (snd x) = true) (parse_filter cfg f ts)) /\
    (forall ts, nsp ts = true -> okp res_e (parse_var_or_lit cfg f ts)) /\
    (forall parts ts, nsp ts = true -> okp res_e (var_loop cfg f parts ts)) /\
    (forall acc ts, nsp ts = true -> okp (fun x => nsp (snd x) = true) (args_loop cfg f acc ts)) /\
    (forall ts, nsp ts = true -> okp res_e (parse_array cfg f ts)) /\
    (forall acc ts, nsp ts = true -> okp res_e (array_loop cfg f acc ts)).

  Ltac expr_unfold :=
    unfold parse_expression, parse_relational, parse_simple, simple_loop, parse_term,
           term_loop, parse_power, parse_factor, parse_filtered, filter_loop, parse_filter,
           parse_var_or_lit, var_loop, args_loop, parse_array, array_loop;
    fold (parse_expression cfg) (parse_relational cfg) (parse_simple cfg) (simple_loop cfg)
         (parse_term cfg) (term_loop cfg) (parse_power cfg) (parse_factor cfg)
         (parse_filtered cfg) (filter_loop cfg) (parse_filter cfg) (parse_var_or_lit cfg)
         (var_loop cfg) (args_loop cfg) (parse_array cfg) (array_loop cfg).

  Lemma expr_ok : forall f, expr_ok_at f.
  Proof.
    induction f as [|f IH].
    - unfold expr_ok_at. repeat split; intros; exact I.
    - destruct IH as (IH1 & IH2 & IH3 & IH4 & IH5 & IH6 & IH7 & IH8 & IH9 & IH10 & IH11
                      & IH12 & IH13 & IH14 & IH15 & IH16).
      unfold expr_ok_at, res_e in *. repeat split; intros; expr_unfold.
      all: t3_tac.
  Qed.
End Expr.

(* ------------------------------------------------------------------------------------ *)
(* The argument parsers of the tags that print expressions, and of the filter tag        *)
(* ------------------------------------------------------------------------------------ *)
Lemma pexpr_ok : forall cfg ts, nsp ts = true -> okp res_e (pexpr cfg ts).
Proof. intros cfg ts H. apply (expr_ok cfg (parse_fuel ts)). exact H. Qed.

Lemma none_safe_cons : forall e es, none_safe (e :: es) = negb (filter_applied n_safe e) && none_safe es.
Proof. reflexivity. Qed.

Lemma pexprs_ok : forall cfg f ts, nsp ts = true ->
  okp (fun es => none_safe es = true) (pexprs cfg f ts).
Proof.
  intros cfg f. induction f as [|f IH]; intros ts H; [exact I|]. cbn [pexprs].
  destruct ts as [|t r]; [reflexivity|].
  pose proof (pexpr_ok cfg (t :: r) H) as P. unfold bind.
  destruct (pexpr cfg (t :: r)) as [[e r1]| | | |]; try exact I.
  cbn [okp] in P. destruct P as [P1 P2]. cbn [fst snd] in P1, P2.
  destruct (Nat.leb (length (t :: r)) (length r1)); [exact I|].
  specialize (IH r1 P2). destruct (pexprs cfg f r1) as [es| | | |]; try exact I.
  cbn [okp] in *. rewrite none_safe_cons, P1, IH. reflexivity.
Qed.

Lemma match_kw_tail : forall ts v r, match_kw ts v = Some r -> exists t, ts = t :: r.
Proof. intros [|t ts] v r H; [discriminate H|]. cbn [match_kw] in H. destruct (is_kw t v); [|discriminate H]. injection H as <-. exists t. reflexivity. Qed.

Lemma cycle_args_ok : forall cfg f ts, nsp ts = true ->
  okp (fun x => none_safe (fst (fst (fst x))) = true) (cycle_args cfg f ts).
Proof.
  intros cfg f. induction f as [|f IH]; intros ts H; [exact I|]. cbn [cycle_args].
  destruct ts as [|t r]; [reflexivity|].
  pose proof (pexpr_ok cfg (t :: r) H) as P. unfold bind.
  destruct (pexpr cfg (t :: r)) as [[e r1]| | | |]; try exact I.
  cbn [okp] in P. destruct P as [P1 P2]. cbn [fst snd] in P1, P2.
  destruct (match_kw r1 [97; 115]) as [r2|].
  - destruct (match_ident r2) as [[name r3]|]; [|exact I].
    destruct (match_ident_val r3 [115; 105; 108; 101; 110; 116]); cbn [okp fst];
      rewrite none_safe_cons, P1; reflexivity.
  - destruct (Nat.leb (length (t :: r)) (length r1)); [exact I|].
    specialize (IH r1 P2). destruct (cycle_args cfg f r1) as [[[[es name] silent] r']| | | |]; try exact I.
    cbn [okp fst] in *. rewrite none_safe_cons, P1, IH. reflexivity.
Qed.

(* identifiers and strings are not symbols *)
Lemma ident_not_sym : forall t s, is_typ t TIdentifier = true -> is_sym t s = false.
Proof. intros t s H. unfold is_typ, is_sym in *. destruct (ttyp t); try discriminate H; reflexivity. Qed.
Lemma string_not_sym : forall t s, is_typ t TString = true -> is_sym t s = false.
Proof. intros t s H. unfold is_typ, is_sym in *. destruct (ttyp t); try discriminate H; reflexivity. Qed.
Lemma sym_not_ident : forall t s, is_sym t s = true -> is_typ t TIdentifier = false.
Proof. intros t s H. unfold is_typ, is_sym in *. destruct (ttyp t); try discriminate H; reflexivity. Qed.

Lemma colon_not_filter_arg : forall fn c, is_sym c [58] = true -> filter_arg_ok fn c = false.
Proof.
  intros fn c H. unfold filter_arg_ok. rewrite (sym_not_ident _ _ H). cbn [andb]. rewrite orb_false_r.
  unfold is_sym in *. destruct (ttyp c); try discriminate H.
  apply cstr_eqb_eq in H. rewrite H. reflexivity.
Qed.

(* a call of the filter tag's chain: an allowed name, no parameter ([tag_call_ok] and
   [tag_call_m] of Spec/SpecTaint2.v are the instances) *)
Definition call_ok (fn : list str) (c : str * option expr) : bool :=
  str_in (fst c) fn && match snd c with None => true | Some _ => false end.

(* only allowed names, no parameter: the chain is one the filter tag may run *)
Lemma filter_tag_chain_ok : forall fn cfg f ts, forallb (filter_arg_ok fn) ts = true ->
  okp (fun x => forallb (call_ok fn) (fst x) = true) (filter_tag_chain cfg f ts).
Proof.
  intros fn cfg f. induction f as [|f IH]; intros ts H; [exact I|]. cbn [filter_tag_chain].
  destruct ts as [|t r]; [reflexivity|]. cbn [match_ident].
  cbn [forallb] in H. apply andb_prop in H. destruct H as [Ht Hr].
  destruct (is_typ t TIdentifier) eqn:Ei; [|exact I].
  destruct (str_in (tval t) (cfg_banned_filters cfg)); [exact I|].
  assert (Hn : str_in (tval t) fn = true).
  { unfold filter_arg_ok in Ht. rewrite (ident_not_sym _ _ Ei), Ei in Ht. exact Ht. }
  assert (Hp : match_sym r [58] = None).
  { destruct r as [|c r0]; [reflexivity|]. cbn [match_sym].
    destruct (is_sym c [58]) eqn:Ec; [|reflexivity].
    cbn [forallb] in Hr. rewrite (colon_not_filter_arg _ _ Ec) in Hr. discriminate Hr. }
  rewrite Hp. unfold bind.
  destruct (match_sym r [124]) as [r2|] eqn:Em.
  - assert (Hr2 : forallb (filter_arg_ok fn) r2 = true).
    { destruct r as [|c r0]; [discriminate Em|]. cbn [match_sym] in Em.
      destruct (is_sym c [124]); [|discriminate Em]. injection Em as <-.
      cbn [forallb] in Hr. apply andb_prop in Hr. exact (proj2 Hr). }
    specialize (IH r2 Hr2). destruct (filter_tag_chain cfg f r2) as [[rest r3]| | | |]; try exact I.
    cbn [okp fst forallb] in *. unfold call_ok at 1. cbn [fst snd]. rewrite Hn, IH. reflexivity.
  - cbn [okp fst forallb]. unfold call_ok. cbn [fst snd]. rewrite Hn. reflexivity.
Qed.

Lemma forallb_assoc_get : forall (A : Type) (P : A -> bool) (k : str) (l : list (str * A)) (v : A),
  forallb (fun x => P (snd x)) l = true -> assoc_get k l = Some v -> P v = true.
Proof.
  intros A P k l. induction l as [|[k' w] l IH]; intros v H E; cbn [assoc_get] in E; [discriminate E|].
  cbn [forallb snd] in H. apply andb_prop in H. destruct H as [H1 H2].
  destruct (str_eqb k k'); [injection E as <-; exact H1|exact (IH v H2 E)].
Qed.

(* imported macros come from the imported template's export table *)
Lemma import_list_ok : forall (P : macro -> bool) f exported ts,
  forallb (fun m => P (snd m)) exported = true ->
  okp (fun ms => forallb (fun am => P (snd am)) ms = true) (import_list f exported ts).
Proof.
  intros P f. induction f as [|f IH]; intros exported ts W; [exact I|]. cbn [import_list].
  destruct ts as [|t r]; [reflexivity|].
  destruct (match_ident (t :: r)) as [[name r0]|]; [|exact I]. unfold bind.
  match goal with |- okp _ (match ?x with _ => _ end) => destruct x as [[alias r1]| | | |] end; try exact I.
  destruct (assoc_get name exported) as [m|] eqn:Eg; [|exact I].
  pose proof (forallb_assoc_get _ P _ _ _ W Eg) as Pm.
  destruct r1 as [|c r1']; [cbn [okp forallb snd]; rewrite Pm; reflexivity|].
  destruct (match_sym (c :: r1') [44]) as [r2|]; [|exact I].
  specialize (IH exported r2 W). destruct (import_list f exported r2) as [rest| | | |]; try exact I.
  cbn [okp forallb snd] in *. rewrite Pm, IH. reflexivity.
Qed.

(* ------------------------------------------------------------------------------------ *)
(* tags: what the scan says about a tag's arguments                                      *)
(* ------------------------------------------------------------------------------------ *)
Definition i_autoescape : str := [116; 97; 103; 65; 117; 116; 111; 101; 115; 99; 97; 112; 101; 80; 97; 114; 115; 101; 114]. (* tagAutoescapeParser *)
Definition i_filter : str := [116; 97; 103; 70; 105; 108; 116; 101; 114; 80; 97; 114; 115; 101; 114].                  (* tagFilterParser *)
Definition i_ssi : str := [116; 97; 103; 83; 83; 73; 80; 97; 114; 115; 101; 114].                                         (* tagSSIParser *)
Definition i_include : str := [116; 97; 103; 73; 110; 99; 108; 117; 100; 101; 80; 97; 114; 115; 101; 114].             (* tagIncludeParser *)
Definition i_spaceless : str := [116; 97; 103; 83; 112; 97; 99; 101; 108; 101; 115; 115; 80; 97; 114; 115; 101; 114].  (* tagSpacelessParser *)

(* decidable side condition on the generated table gen/Tables.v tag_impl: the five parsers the
   scan cares about are registered under the five names it looks for *)
Definition named_as (name impl : str) : bool :=
  implb (str_eqb impl i_autoescape) (str_eqb name k_autoescape) &&
  implb (str_eqb impl i_filter) (str_eqb name k_filter) &&
  implb (str_eqb impl i_ssi) (str_eqb name k_ssi) &&
  implb (str_eqb impl i_include) (str_eqb name k_include) &&
  implb (str_eqb impl i_spaceless) (str_eqb name k_spaceless).
Definition tag_names_ok (tbl : list (str * str)) : bool :=
  forallb (fun kv => named_as (fst kv) (snd kv)) tbl.

Lemma tag_names_ok_spec : forall tbl name impl,
  tag_names_ok tbl = true -> assoc_get name tbl = Some impl -> named_as name impl = true.
Proof.
  unfold tag_names_ok. induction tbl as [|[k v] tbl IH]; intros name impl Hok Hget;
    cbn [assoc_get] in Hget; [discriminate Hget|].
  cbn [forallb fst snd] in Hok. apply andb_prop in Hok. destruct Hok as [Hkv Hrest].
  destruct (str_eqb name k) eqn:Ek.
  - injection Hget as ->. apply cstr_eqb_eq in Ek. subst k. exact Hkv.
  - exact (IH name impl Hrest Hget).
Qed.

(* what a tag parser may assume of its arguments *)
Definition args_ok (fn : list str) (spl lz : bool) (impl : str) (args : list token) : bool :=
  nsp args &&
  implb (str_eqb impl i_autoescape) (negb (head_ident args k_off)) &&
  implb (str_eqb impl i_filter) (forallb (filter_arg_ok fn) args) &&
  implb (str_eqb impl i_ssi)
        (match args with s :: p :: _ => is_typ s TString && tok_ident p k_parsed | _ => false end) &&
  implb (str_eqb impl i_include) (lz || head_string args) &&
  implb (str_eqb impl i_spaceless) spl.

Lemma collect_args_upto : forall l acc args body,
  collect_args l acc = Some (args, body) -> args = rev acc ++ upto_close (toks_of l).
Proof.
  induction l as [|x l IH]; intros acc args body H; cbn [collect_args] in H; [discriminate H|].
  unfold toks_of. cbn [map upto_close]. unfold a_is_sym in H. change y_tag_close with [37; 125].
  destruct (is_sym (a_tok x) [37; 125]).
  - injection H as <- _. rewrite app_nil_r. reflexivity.
  - rewrite (IH _ _ _ H). cbn [rev]. rewrite <- app_assoc. reflexivity.
Qed.

Lemma upto_close_split : forall ts, exists post, ts = upto_close ts ++ post.
Proof.
  induction ts as [|t r [post IH]]; [exists []; reflexivity|]. cbn [upto_close].
  destruct (is_sym t y_tag_close); [exists (t :: r); reflexivity|].
  exists post. cbn [app]. rewrite <- IH. reflexivity.
Qed.

Lemma head_ident_upto : forall ts s, head_ident (upto_close ts) s = head_ident ts s.
Proof.
  intros [|t r] s; [reflexivity|]. cbn [upto_close head_ident].
  destruct (is_sym t y_tag_close) eqn:E; [|reflexivity]. cbn [head_ident].
  unfold tok_ident. rewrite (sym_not_ident _ _ E). reflexivity.
Qed.
Lemma head_string_upto : forall ts, head_string (upto_close ts) = head_string ts.
Proof.
  intros [|t r]; [reflexivity|]. cbn [upto_close head_string].
  destruct (is_sym t y_tag_close) eqn:E; [|reflexivity]. cbn [head_string].
  unfold is_typ, is_sym in *. destruct (ttyp t); try discriminate E; reflexivity.
Qed.

Lemma tag_args_ok : forall fn spl lz tbl nm l args body impl,
  tag_names_ok tbl = true ->
  a_is_ident nm = true -> assoc_get (tval (a_tok nm)) tbl = Some impl ->
  collect_args l [] = Some (args, body) ->
  nsp (toks_of l) = true ->
  tag_optout fn spl lz (toks_of (nm :: l)) = false ->
  args_ok fn spl lz impl args = true.
Proof.
  intros fn spl lz tbl nm l args body impl Htab Hid Hget Hc Hnsp Hopt.
  apply collect_args_upto in Hc. cbn [rev app] in Hc. subst args.
  pose proof (tag_names_ok_spec _ _ _ Htab Hget) as Hn. unfold named_as in Hn.
  unfold toks_of in Hopt. cbn [map tag_optout] in Hopt. fold (toks_of l) in Hopt.
  unfold a_is_ident in Hid. rewrite Hid in Hopt. cbn [andb] in Hopt.
  apply orb_false_iff in Hopt. destruct Hopt as [Hopt O5].
  apply orb_false_iff in Hopt. destruct Hopt as [Hopt O4].
  apply orb_false_iff in Hopt. destruct Hopt as [Hopt O3].
  apply orb_false_iff in Hopt. destruct Hopt as [O1 O2].
  apply andb_prop in Hn. destruct Hn as [Hn N5].
  apply andb_prop in Hn. destruct Hn as [Hn N4].
  apply andb_prop in Hn. destruct Hn as [Hn N3].
  apply andb_prop in Hn. destruct Hn as [N1 N2].
  unfold args_ok.
  assert (A0 : nsp (upto_close (toks_of l)) = true).
  { destruct (upto_close_split (toks_of l)) as [post E]. rewrite E in Hnsp. exact (nsp_app_l _ _ Hnsp). }
  rewrite A0. cbn [andb].
  assert (A1 : implb (str_eqb impl i_autoescape) (negb (head_ident (upto_close (toks_of l)) k_off)) = true).
  { destruct (str_eqb impl i_autoescape); [|reflexivity]. cbn [implb] in *. rewrite N1 in O1.
    rewrite head_ident_upto. cbn [andb] in O1. rewrite O1. reflexivity. }
  assert (A2 : implb (str_eqb impl i_filter) (forallb (filter_arg_ok fn) (upto_close (toks_of l))) = true).
  { destruct (str_eqb impl i_filter); [|reflexivity]. cbn [implb] in *. rewrite N2 in O2.
    cbn [andb] in O2. apply negb_false_iff in O2. exact O2. }
  assert (A3 : implb (str_eqb impl i_ssi)
                 (match upto_close (toks_of l) with
                  | s :: p :: _ => is_typ s TString && tok_ident p k_parsed | _ => false end) = true).
  { destruct (str_eqb impl i_ssi); [|reflexivity]. cbn [implb] in *. rewrite N3 in O3.
    cbn [andb] in O3. apply negb_false_iff in O3.
    destruct (toks_of l) as [|s [|p rest]]; try discriminate O3.
    apply andb_prop in O3. destruct O3 as [Os Op]. cbn [upto_close].
    rewrite (string_not_sym _ _ Os).
    unfold tok_ident in Op. apply andb_prop in Op. destruct Op as [Op1 Op2].
    rewrite (ident_not_sym _ _ Op1). rewrite Os. unfold tok_ident. rewrite Op1, Op2. reflexivity. }
  assert (A4 : implb (str_eqb impl i_include) (lz || head_string (upto_close (toks_of l))) = true).
  { destruct (str_eqb impl i_include); [|reflexivity]. cbn [implb] in *. rewrite N4 in O4.
    rewrite head_string_upto. cbn [andb] in O4.
    destruct lz; [reflexivity|]. cbn [negb andb orb] in *. apply negb_false_iff in O4. exact O4. }
  assert (A5 : implb (str_eqb impl i_spaceless) spl = true).
  { destruct (str_eqb impl i_spaceless); [|reflexivity]. cbn [implb] in *. rewrite N5 in O5.
    cbn [andb] in O5. apply negb_false_iff in O5. exact O5. }
  rewrite A1, A2, A3, A4, A5. reflexivity.
Qed.

(* the argument facts, as the tag parsers use them *)
Section ArgsOk.
  Variable fn : list str.
  Variable spl lz : bool.
  Variable impl : str.
  Variable args : list token.
  Hypothesis H : args_ok fn spl lz impl args = true.

  Lemma args_ok_parts :
    nsp args = true /\
    implb (str_eqb impl i_autoescape) (negb (head_ident args k_off)) = true /\
    implb (str_eqb impl i_filter) (forallb (filter_arg_ok fn) args) = true /\
    implb (str_eqb impl i_ssi)
          (match args with s :: p :: _ => is_typ s TString && tok_ident p k_parsed | _ => false end) = true /\
    implb (str_eqb impl i_include) (lz || head_string args) = true /\
    implb (str_eqb impl i_spaceless) spl = true.
  Proof.
    unfold args_ok in H.
    apply andb_prop in H. destruct H as [H5 P6].
    apply andb_prop in H5. destruct H5 as [H4 P5].
    apply andb_prop in H4. destruct H4 as [H3 P4].
    apply andb_prop in H3. destruct H3 as [H2 P3].
    apply andb_prop in H2. destruct H2 as [P1 P2].
    repeat split; assumption.
  Qed.

  Lemma args_ok_nsp : nsp args = true.
  Proof. exact (proj1 args_ok_parts). Qed.

  Lemma args_ok_autoescape : forall mode rest,
    tag_is impl i_autoescape = true -> match_ident args = Some (mode, rest) -> str_eqb mode k_off = false.
  Proof.
    intros mode rest Hi Hm. destruct args_ok_parts as (_ & P & _). unfold tag_is in Hi. rewrite Hi in P.
    cbn [implb] in P. apply negb_true_iff in P.
    destruct args as [|t r]; [discriminate Hm|]. cbn [match_ident] in Hm. cbn [head_ident] in P.
    unfold tok_ident in P. destruct (is_typ t TIdentifier); [|discriminate Hm].
    injection Hm as <- _. exact P.
  Qed.

  Lemma args_ok_filter : tag_is impl i_filter = true -> forallb (filter_arg_ok fn) args = true.
  Proof.
    intros Hi. destruct args_ok_parts as (_ & _ & P & _). unfold tag_is in Hi. rewrite Hi in P. exact P.
  Qed.

  Lemma args_ok_ssi : forall fname rest,
    tag_is impl i_ssi = true -> match_string args = Some (fname, rest) -> match_ident_val rest k_parsed <> None.
  Proof.
    intros fname rest Hi Hm. destruct args_ok_parts as (_ & _ & _ & P & _). unfold tag_is in Hi. rewrite Hi in P.
    cbn [implb] in P. destruct args as [|s [|p r]]; try discriminate P.
    cbn [match_string] in Hm. apply andb_prop in P. destruct P as [Hs Hp]. rewrite Hs in Hm.
    injection Hm as _ <-. cbn [match_ident_val]. unfold tok_ident in Hp. rewrite Hp. discriminate.
  Qed.

  Lemma args_ok_include : lz = false -> tag_is impl i_include = true -> match_string args <> None.
  Proof.
    intros Hlz Hi. destruct args_ok_parts as (_ & _ & _ & _ & P & _). unfold tag_is in Hi. rewrite Hi, Hlz in P.
    cbn [implb orb] in P. destruct args as [|s r]; [discriminate P|]. cbn [head_string] in P. cbn [match_string].
    rewrite P. discriminate.
  Qed.

  Lemma args_ok_spaceless : tag_is impl i_spaceless = true -> spl = true.
  Proof.
    intros Hi. destruct args_ok_parts as (_ & _ & _ & _ & _ & P). unfold tag_is in Hi. rewrite Hi in P. exact P.
  Qed.
End ArgsOk.

(* ------------------------------------------------------------------------------------ *)
(* token lists of a template and their suffixes                                          *)
(* ------------------------------------------------------------------------------------ *)
Section ScanSuffix.
  Variable lit : str -> bool.
  Variable fn : list str.
  Variable spl lz : bool.
  Local Notation scan := (scan_tokens lit fn spl lz).

  Lemma nt_suffix : forall (r all : list atok),
    suffix r all -> scan (toks_of all) = true -> scan (toks_of r) = true.
  Proof.
    intros r all [pre ->] H. unfold toks_of in *. rewrite map_app in H. exact (scan_app_r _ _ _ _ _ _ H).
  Qed.

  Lemma nt_here : forall a (r all : list atok),
    suffix (a :: r) all -> scan (toks_of all) = true ->
    tok_optout lit fn spl lz (a_tok a) (toks_of r) = false /\ nsp (toks_of r) = true.
  Proof.
    intros a r all S H. pose proof (nt_suffix _ _ S H) as H1.
    unfold toks_of in H1. cbn [map] in H1. rewrite scan_cons in H1.
    apply andb_prop in H1. destruct H1 as [H1 H2]. split; [apply negb_true_iff; exact H1|].
    exact (scan_nsp _ _ _ _ _ H2).
  Qed.
End ScanSuffix.

Lemma take_code_split : forall l c r, take_code l = (c, r) -> l = c ++ r.
Proof.
  induction l as [|a l IH]; intros c r H; cbn [take_code] in H; [injection H as <- <-; reflexivity|].
  destruct (tok_is_html (a_tok a)); [injection H as <- <-; reflexivity|].
  destruct (take_code l) as [c0 r0]. injection H as <- <-. cbn [app]. rewrite (IH c0 r0 eq_refl). reflexivity.
Qed.

Lemma take_code_nsp : forall l c r, take_code l = (c, r) -> nsp (toks_of l) = true -> nsp (toks_of c) = true.
Proof.
  intros l c r H N. rewrite (take_code_split _ _ _ H) in N. unfold toks_of in *. rewrite map_app in N.
  exact (nsp_app_l _ _ N).
Qed.

(* what a fetch returns is a file of the set *)
Lemma resolve_template_in : forall ls idx path g c,
  fst (resolve_template ls idx path g) = Some c -> exists name, In (name, c) (flat_map l_files ls).
Proof.
  induction ls as [|l rest IH]; intros idx path g c H; cbn [resolve_template] in H; [discriminate H|].
  destruct (assoc_get (fsloader_abs [] path) (l_files l)) as [c0|] eqn:E.
  - cbn [fst] in H. injection H as ->. exists (fsloader_abs [] path). cbn [flat_map]. apply in_or_app. left.
    revert E. generalize (fsloader_abs [] path) as k. generalize (l_files l) as m.
    induction m as [|[k' v] m IHm]; intros k E; cbn [assoc_get] in E; [discriminate E|].
    destruct (str_eqb k k') eqn:Ek.
    + injection E as ->. apply cstr_eqb_eq in Ek. subst k'. left. reflexivity.
    + right. exact (IHm k E).
  - destruct (IH _ _ _ _ H) as [name Hin]. exists name. cbn [flat_map]. apply in_or_app. right. exact Hin.
Qed.

Lemma fetch_in_set : forall lit fn spl lz se path g c g',
  scan_set lit fn spl lz se = true -> fetch se path g = Ok (c, g') -> scan_source lit fn spl lz c = true.
Proof.
  intros lit fn spl lz se path g c g' Hset H. rewrite fetch_spec in H.
  destruct (fst (resolve_template (se_loaders se) 0 path g)) as [c0|] eqn:E; [|discriminate H].
  injection H as -> _. destruct (resolve_template_in _ _ _ _ _ E) as [name Hin].
  unfold scan_set in Hset.
  exact (proj1 (forallb_forall _ _) Hset (name, c) Hin).
Qed.

(* ------------------------------------------------------------------------------------ *)
(* what the induction needs to know of a predicate on nodes / macros / templates: its      *)
(* one-step equations ([ok_node ..] and [ok_node_m ..] of Spec/SpecTaint2.v are the        *)
(* instances; they are mutual fixpoints: never cbn them)                                   *)
(* ------------------------------------------------------------------------------------ *)
Definition opt_nodes (okn : node -> bool) (o : option (list node)) : bool :=
  match o with Some l => forallb okn l | None => true end.

Record ok_eqs (lit : str -> bool) (fn : list str) (spl lz : bool)
              (okn : node -> bool) (okm : macro -> bool) (okt : template -> bool) : Prop := mk_ok_eqs {
  oe_html : forall i v a b c d, okn (NHtml i v a b c d) = lit v;
  oe_var : forall e, okn (NVar e) = negb (filter_applied n_safe e);
  oe_if : forall c ws, okn (NIf c ws) = forallb (forallb okn) ws;
  oe_for : forall k v o r s body e, okn (NFor k v o r s body e) = forallb okn body && opt_nodes okn e;
  oe_with : forall p body, okn (NWith p body) = forallb okn body;
  oe_set : forall n e, okn (NSet n e) = true;
  oe_macro : forall m, okn (NMacro m) = okm m;
  oe_import : forall ms, okn (NImport ms) = forallb (fun am => okm (snd am)) ms;
  oe_block : forall n, okn (NBlock n) = true;
  oe_extends : okn NExtends = true;
  oe_include : forall t a b c d,
    okn (NInclude t a b c d) = match t with Some t' => okt t' | None => lz end;
  oe_include_empty : okn NIncludeEmpty = true;
  oe_autoescape : forall on body, okn (NAutoescape on body) = on && forallb okn body;
  oe_filter : forall chain body, okn (NFilterTag chain body) = forallb (call_ok fn) chain && forallb okn body;
  oe_firstof : forall args, okn (NFirstof args) = none_safe args;
  oe_cycle : forall i args n s, okn (NCycle i args n s) = none_safe args;
  oe_ifchanged : forall i w t e, okn (NIfchanged i w t e) = forallb okn t && opt_nodes okn e;
  oe_ifequal : forall n a b t e, okn (NIfequal n a b t e) = forallb okn t && opt_nodes okn e;
  oe_spaceless : forall body, okn (NSpaceless body) = spl && forallb okn body;
  oe_templatetag : forall c, okn (NTemplatetag c) = lit c;
  oe_widthratio : forall a b c n, okn (NWidthratio a b c n) = true;
  oe_comment : okn NComment = true;
  oe_ssi : forall c t, okn (NSsi c t) = match t with Some t' => okt t' | None => lit c end;
  oe_okm : forall n p body e, okm (Macro n p body e) = forallb okn body;
  oe_okt : forall i n s root blocks ex parent tr ls,
    okt (Tpl i n s root blocks ex parent tr ls) =
    forallb okn root && forallb (fun b => forallb okn (snd b)) blocks &&
    match parent with Some p => okt p | None => true end
}.

(* Part I: [ok_node lz] with literal text that needs no escaping *)
Lemma ok_eqs_plain : forall lz,
  ok_eqs inert_text clean_tag_filters true lz (ok_node lz) (ok_macro lz) (ok_template lz).
Proof.
  intros lz. constructor; reflexivity.
Qed.

(* Part II: [ok_node_m lit lz] *)
Lemma ok_eqs_markup : forall lit lz,
  ok_eqs lit markup_tag_filters false lz (ok_node_m lit lz) (ok_macro_m lit lz) (ok_template_m lit lz).
Proof.
  intros lit lz. constructor; reflexivity.
Qed.

(* ------------------------------------------------------------------------------------ *)
(* The document parser and compilation                                                   *)
(* ------------------------------------------------------------------------------------ *)
Section Doc.
  Variable se : senv.
  Variable lit : str -> bool.
  Variable fn : list str.
  Variable spl lz : bool.
  Variable okn : node -> bool.
  Variable okm : macro -> bool.
  Variable okt : template -> bool.
  Hypothesis OE : ok_eqs lit fn spl lz okn okm okt.
  Hypothesis Hset : scan_set lit fn spl lz se = true.
  Hypothesis Htab : tag_names_ok tag_impl = true.
  Hypothesis Htt : forallb (fun kv => lit (snd kv)) templatetag_map = true.

  (* what the parse of one template has written so far: block bodies, exported macros, parent *)
  Definition ok_macros (l : list (str * macro)) : bool := forallb (fun m => okm (snd m)) l.
  Definition ok_blocks (l : list (str * list node)) : bool :=
    forallb (fun b => forallb okn (snd b)) l.
  Definition ok_parent (p : option template) : bool :=
    match p with Some t => okt t | None => true end.
  Definition ok_tst (tst : tstate) : bool :=
    ok_blocks (t_blocks tst) && ok_macros (t_exported tst) && ok_parent (t_parent tst).
  Definition ok_pst (st : pst) : bool := ok_tst (fst st).
  (* a compiled template, with the macros it exports (an import copies them) *)
  Definition ok_tpl_x (t : template) : bool := okt t && ok_macros (tpl_exported t).

  Local Notation NT all := (scan_tokens lit fn spl lz (toks_of all) = true).

  Definition doc_inv (f : nat) : Prop :=
    (forall whole, NT whole -> forall level st ts n r st', suffix ts whole -> ok_pst st = true ->
       parse_elem se f level st ts = Ok (n, r, st') ->
       okn n = true /\ suffix r whole /\ ok_pst st' = true) /\
    (forall whole, NT whole -> forall level names st ts ns nm args r st', suffix ts whole -> ok_pst st = true ->
       wrap_until se f level names st ts = Ok (ns, nm, args, r, st') ->
       forallb okn ns = true /\ suffix r whole /\ ok_pst st' = true) /\
    (forall whole, NT whole -> forall level st ts n r st', suffix ts whole -> ok_pst st = true ->
       tag_optout fn spl lz (toks_of ts) = false ->
       parse_tag se f level st ts = Ok (n, r, st') ->
       okn n = true /\ suffix r whole /\ ok_pst st' = true) /\
    (forall whole, NT whole -> forall level impl args st ts n r st', suffix ts whole -> ok_pst st = true ->
       args_ok fn spl lz impl args = true ->
       tag_parser se f level impl args st ts = Ok (n, r, st') ->
       okn n = true /\ suffix r whole /\ ok_pst st' = true) /\
    (forall whole, NT whole -> forall level conds ws st ts cs ws' r st', suffix ts whole -> ok_pst st = true ->
       forallb (forallb okn) ws = true ->
       if_branches se f level conds ws st ts = Ok (cs, ws', r, st') ->
       forallb (forallb okn) ws' = true /\ suffix r whole /\ ok_pst st' = true) /\
    (forall whole, NT whole -> forall st ts ns st', suffix ts whole -> ok_pst st = true ->
       parse_doc se f st ts = Ok (ns, st') -> forallb okn ns = true /\ ok_pst st' = true) /\
    (forall name isstr src g t g', scan_source lit fn spl lz src = true ->
       compile_src se f name isstr src g = Ok (t, g') -> ok_tpl_x t = true) /\
    (forall path g t g', compile_file se f path g = Ok (t, g') -> ok_tpl_x t = true).

  (* the equations, as rewriting lemmas *)
  Lemma E_html : forall i v a b c d, okn (NHtml i v a b c d) = lit v. Proof. exact (oe_html _ _ _ _ _ _ _ OE). Qed.
  Lemma E_var : forall e, okn (NVar e) = negb (filter_applied n_safe e). Proof. exact (oe_var _ _ _ _ _ _ _ OE). Qed.
  Lemma E_if : forall c ws, okn (NIf c ws) = forallb (forallb okn) ws. Proof. exact (oe_if _ _ _ _ _ _ _ OE). Qed.
  Lemma E_for : forall k v o r s body e, okn (NFor k v o r s body e) = forallb okn body && opt_nodes okn e.
  Proof. exact (oe_for _ _ _ _ _ _ _ OE). Qed.
  Lemma E_with : forall p body, okn (NWith p body) = forallb okn body. Proof. exact (oe_with _ _ _ _ _ _ _ OE). Qed.
  Lemma E_set : forall n e, okn (NSet n e) = true. Proof. exact (oe_set _ _ _ _ _ _ _ OE). Qed.
  Lemma E_macro : forall m, okn (NMacro m) = okm m. Proof. exact (oe_macro _ _ _ _ _ _ _ OE). Qed.
  Lemma E_import : forall ms, okn (NImport ms) = forallb (fun am => okm (snd am)) ms.
  Proof. exact (oe_import _ _ _ _ _ _ _ OE). Qed.
  Lemma E_block : forall n, okn (NBlock n) = true. Proof. exact (oe_block _ _ _ _ _ _ _ OE). Qed.
  Lemma E_extends : okn NExtends = true. Proof. exact (oe_extends _ _ _ _ _ _ _ OE). Qed.
  Lemma E_include : forall t a b c d, okn (NInclude t a b c d) = match t with Some t' => okt t' | None => lz end.
  Proof. exact (oe_include _ _ _ _ _ _ _ OE). Qed.
  Lemma E_include_empty : okn NIncludeEmpty = true. Proof. exact (oe_include_empty _ _ _ _ _ _ _ OE). Qed.
  Lemma E_autoescape : forall on body, okn (NAutoescape on body) = on && forallb okn body.
  Proof. exact (oe_autoescape _ _ _ _ _ _ _ OE). Qed.
  Lemma E_filter : forall chain body, okn (NFilterTag chain body) = forallb (call_ok fn) chain && forallb okn body.
  Proof. exact (oe_filter _ _ _ _ _ _ _ OE). Qed.
  Lemma E_firstof : forall args, okn (NFirstof args) = none_safe args. Proof. exact (oe_firstof _ _ _ _ _ _ _ OE). Qed.
  Lemma E_cycle : forall i args n s, okn (NCycle i args n s) = none_safe args. Proof. exact (oe_cycle _ _ _ _ _ _ _ OE). Qed.
  Lemma E_ifchanged : forall i w t e, okn (NIfchanged i w t e) = forallb okn t && opt_nodes okn e.
  Proof. exact (oe_ifchanged _ _ _ _ _ _ _ OE). Qed.
  Lemma E_ifequal : forall n a b t e, okn (NIfequal n a b t e) = forallb okn t && opt_nodes okn e.
  Proof. exact (oe_ifequal _ _ _ _ _ _ _ OE). Qed.
  Lemma E_spaceless : forall body, okn (NSpaceless body) = spl && forallb okn body.
  Proof. exact (oe_spaceless _ _ _ _ _ _ _ OE). Qed.
  Lemma E_templatetag : forall c, okn (NTemplatetag c) = lit c. Proof. exact (oe_templatetag _ _ _ _ _ _ _ OE). Qed.
  Lemma E_widthratio : forall a b c n, okn (NWidthratio a b c n) = true. Proof. exact (oe_widthratio _ _ _ _ _ _ _ OE). Qed.
  Lemma E_comment : okn NComment = true. Proof. exact (oe_comment _ _ _ _ _ _ _ OE). Qed.
  Lemma E_ssi : forall c t, okn (NSsi c t) = match t with Some t' => okt t' | None => lit c end.
  Proof. exact (oe_ssi _ _ _ _ _ _ _ OE). Qed.
  Lemma E_okm : forall n p body e, okm (Macro n p body e) = forallb okn body. Proof. exact (oe_okm _ _ _ _ _ _ _ OE). Qed.
  Lemma E_okt : forall i n s root blocks ex parent tr ls,
    okt (Tpl i n s root blocks ex parent tr ls) =
    forallb okn root && forallb (fun b => forallb okn (snd b)) blocks &&
    match parent with Some p => okt p | None => true end.
  Proof. exact (oe_okt _ _ _ _ _ _ _ OE). Qed.

  Ltac ok_rw :=
    rewrite ?E_html, ?E_var, ?E_if, ?E_for, ?E_with, ?E_set, ?E_macro, ?E_import, ?E_block,
            ?E_extends, ?E_include, ?E_include_empty, ?E_autoescape, ?E_filter, ?E_firstof,
            ?E_cycle, ?E_ifchanged, ?E_ifequal, ?E_spaceless, ?E_templatetag, ?E_widthratio,
            ?E_comment, ?E_ssi, ?E_okm, ?E_okt.

  (* ---- tactics ---- *)
  Ltac have_suffix r all := lazymatch goal with _ : suffix r all |- _ => fail | _ => idtac end.
  Ltac sfwd1 :=
    match goal with
    | S : suffix (_ :: ?r) ?all |- _ =>
        have_suffix r all; pose proof (suffix_tail _ _ _ _ S)
    | S : suffix ?l ?all, E : end_args ?l _ = Ok (_, ?r) |- _ =>
        have_suffix r all; pose proof (suffix_trans _ _ _ _ (end_args_suffix _ _ _ _ E) S)
    | S : suffix ?l ?all, E : skip_until _ ?l = Ok ?r |- _ =>
        have_suffix r all; pose proof (suffix_trans _ _ _ _ (skip_until_suffix _ _ _ E) S)
    | S : suffix ?l ?all, E : collect_args ?l [] = Some (_, ?r) |- _ =>
        have_suffix r all; pose proof (suffix_trans _ _ _ _ (proj1 (collect_args_shape _ _ _ _ E)) S)
    | S : suffix ?l ?all, E : resync ?l _ _ = ?r |- _ =>
        have_suffix r all;
        let S' := fresh "S" in
        assert (S' : suffix r all)
          by (eapply suffix_trans; [|exact S]; rewrite <- E; unfold resync; apply suffix_skipn)
    end.

  Ltac pst_ok st := first [ assumption | unfold ok_pst in *; cbn [fst] in *; assumption ].

  Ltac ih1 Helem Hwrap Hif Hdoc Hfile :=
    match goal with
    | E : parse_elem se _ _ ?st ?ts = Ok _, S : suffix ?ts ?all, Hall : NT ?all |- _ =>
        let I := fresh "I" in assert (I : ok_pst st = true) by pst_ok st;
        apply (Helem _ Hall _ _ _ _ _ _ S I) in E; destruct E as (? & ? & ?)
    | E : wrap_until se _ _ _ ?st ?ts = Ok _, S : suffix ?ts ?all, Hall : NT ?all |- _ =>
        let I := fresh "I" in assert (I : ok_pst st = true) by pst_ok st;
        apply (Hwrap _ Hall _ _ _ _ _ _ _ _ _ S I) in E; destruct E as (? & ? & ?)
    | E : parse_doc se _ ?st ?ts = Ok _, S : suffix ?ts ?all, Hall : NT ?all |- _ =>
        let I := fresh "I" in assert (I : ok_pst st = true) by pst_ok st;
        apply (Hdoc _ Hall _ _ _ _ S I) in E; destruct E as (? & ?)
    | E : compile_file se _ _ _ = Ok _ |- _ => apply Hfile in E
    end.
  Ltac fwd Helem Hwrap Hif Hdoc Hfile := repeat first [ sfwd1 | ih1 Helem Hwrap Hif Hdoc Hfile ].

  Ltac finish :=
    match goal with H : Ok _ = Ok _ |- _ => injection H as <- <- <- end ||
    match goal with H : Ok _ = Ok _ |- _ => injection H as <- <- <- <- end ||
    match goal with H : Ok _ = Ok _ |- _ => injection H as <- <- <- <- <- end ||
    match goal with H : Ok _ = Ok _ |- _ => injection H as <- <- end.

  (* boolean facts: split the hypotheses, compute the goal, rewrite *)
  Ltac bnorm :=
    unfold ok_pst, ok_tst, ok_tpl_x in *; cbn [fst snd t_blocks t_exported t_parent] in *;
    repeat match goal with
    | H : _ /\ _ |- _ => destruct H
    | H : _ && _ = true |- _ => apply andb_prop in H
    end.
  Ltac bsolve :=
    unfold ok_blocks, ok_macros, ok_parent in *;
    cbn [fst snd tpl_exported];
    rewrite ?forallb_app; cbn [forallb fst snd]; ok_rw; cbn [forallb fst snd opt_nodes];
    repeat match goal with
           | H : ?x = true |- _ =>
               lazymatch x with true => fail | _ => idtac end; progress (rewrite H)
           | H : ?x = false |- _ => progress (rewrite H)
           end;
    cbn [andb negb orb]; try reflexivity.
  Ltac leaf :=
    bnorm; repeat match goal with |- _ /\ _ => split end; first [ assumption | solve [bsolve] ].

  (* the tags whose node depends on what the scan said about the arguments *)
  Ltac tp_special Hif :=
    lazymatch goal with
    | |- okn (NAutoescape false _) = true /\ _ =>
        exfalso;
        match goal with
        | Ha : args_ok _ _ _ ?impl ?args = true, Hi : tag_is ?impl _ = true,
          Hm : match_ident ?args = Some (?mode, _), Ho : str_eqb ?mode [111; 102; 102] = true |- _ =>
            pose proof (args_ok_autoescape _ _ _ _ _ Ha _ _ Hi Hm) as C; unfold k_off in C;
            rewrite C in Ho; discriminate Ho
        end
    | |- okn (NCycle _ _ _ _) = true /\ _ =>
        match goal with
        | E : cycle_args _ _ ?args = Ok _, Hn : nsp ?args = true |- _ =>
            pose proof (okp_ok _ _ _ _ (cycle_args_ok _ _ _ Hn) E) as C; cbn [fst] in C
        end; leaf
    | |- okn (NFilterTag _ _) = true /\ _ =>
        match goal with
        | E : filter_tag_chain _ _ ?args = Ok _, Ha : args_ok _ _ _ ?impl ?args = true,
          Hi : tag_is ?impl _ = true |- _ =>
            pose proof (okp_ok _ _ _ _ (filter_tag_chain_ok _ _ _ _ (args_ok_filter _ _ _ _ _ Ha Hi)) E) as C;
            cbn [fst] in C
        end; leaf
    | |- okn (NFirstof _) = true /\ _ =>
        match goal with
        | E : pexprs _ _ ?args = Ok _, Hn : nsp ?args = true |- _ =>
            pose proof (okp_ok _ _ _ _ (pexprs_ok _ _ _ Hn) E) as C; cbn beta in C
        end; leaf
    | |- okn (NIf _ _) = true /\ _ =>
        match goal with
        | E : if_branches se _ _ _ [] ?st ?ts = Ok _, S : suffix ?ts ?w, HA : NT ?w,
          I : ok_pst ?st = true |- _ =>
            apply (Hif _ HA _ _ [] _ _ _ _ _ _ S I eq_refl) in E; destruct E as (? & ? & ?)
        end; leaf
    | |- okn (NImport _) = true /\ _ =>
        match goal with
        | E : import_list _ (tpl_exported ?t) _ = Ok _, Ht : ok_tpl_x ?t = true |- _ =>
            unfold ok_tpl_x in Ht; apply andb_prop in Ht; destruct Ht as [? Hx];
            pose proof (okp_ok _ _ _ _ (import_list_ok okm _ _ _ Hx) E) as C; cbn beta in C
        end; leaf
    | |- okn (NInclude None _ _ _ _) = true /\ _ =>
        match goal with
        | Ha : args_ok _ _ _ ?impl ?args = true, Hi : tag_is ?impl _ = true,
          Hm : match_string ?args = None |- _ =>
            assert (Hlz : lz = true)
              by (apply not_false_is_true; let Hl := fresh "Hl" in intro Hl; exact (args_ok_include _ _ _ _ _ Ha Hl Hi Hm))
        end; leaf
    | |- okn (NSsi _ None) = true /\ _ =>
        exfalso;
        match goal with
        | Ha : args_ok _ _ _ ?impl ?args = true, Hi : tag_is ?impl _ = true,
          Hm : match_string ?args = Some (_, ?rest), Hp : match_ident_val ?rest _ = None |- _ =>
            exact (args_ok_ssi _ _ _ _ _ Ha _ _ Hi Hm Hp)
        end
    | |- okn (NTemplatetag _) = true /\ _ =>
        match goal with
        | E : assoc_get _ templatetag_map = Some _ |- _ =>
            pose proof (forallb_assoc_get _ lit _ _ _ Htt E) as C
        end; leaf
    | |- okn (NSpaceless _) = true /\ _ =>
        match goal with
        | Ha : args_ok _ _ _ ?impl ?args = true, Hi : tag_is ?impl _ = true |- _ =>
            pose proof (args_ok_spaceless _ _ _ _ _ Ha Hi) as Hspl
        end; leaf
    | |- _ => leaf
    end.

  Lemma doc_inv_all : forall f, doc_inv f.
  Proof.
    induction f as [|f [Helem [Hwrap [Htag [Htp [Hif [Hdoc [Hsrc Hfile]]]]]]]].
    - repeat split; intros; discriminate.
    - unfold doc_inv. split; [|split; [|split; [|split; [|split; [|split; [|split]]]]]].
      + (* parse_elem *)
        intros whole Hall level st ts n r st' S I H.
        rewrite parse_elem_unfold in H. cbv zeta in H.
        crunch H; try finish; fwd Helem Hwrap Hif Hdoc Hfile.
        * (* text *)
          match goal with E : ttyp (a_tok ?a) = THTML, S : suffix (?a :: _) _ |- _ =>
            destruct (nt_here _ _ _ _ _ _ _ S Hall) as [Hhere _]; unfold tok_optout in Hhere; rewrite E in Hhere
          end.
          apply negb_false_iff in Hhere. leaf.
        * (* {{ e }} *)
          match goal with
          | Ec : take_code ?l = (?c, _), Ee : pexpr _ (toks_of ?c) = Ok _, S : suffix ?l _ |- _ =>
              pose proof (okp_ok _ _ _ _ (pexpr_ok _ _ (take_code_nsp _ _ _ Ec
                            (scan_nsp _ _ _ _ _ (nt_suffix _ _ _ _ _ _ S Hall)))) Ee) as [Pe _]
          end.
          cbn [fst] in Pe. leaf.
        * (* {% tag *)
          match goal with
          | E : ttyp (a_tok ?a) = TSymbol, Eo : str_eqb (tval (a_tok ?a)) [123; 37] = true,
            S : suffix (?a :: ?l) _, S' : suffix ?l _ |- _ =>
              destruct (nt_here _ _ _ _ _ _ _ S Hall) as [Hhere _];
              apply (Htag _ Hall _ _ _ _ _ _ S' I) in H; [exact H|];
              unfold tok_optout in Hhere; rewrite E in Hhere;
              apply orb_false_iff in Hhere; destruct Hhere as [_ Hhere];
              unfold is_sym in Hhere; rewrite E in Hhere;
              change y_tag_open with [123; 37] in Hhere; rewrite Eo in Hhere; exact Hhere
          end.
      + (* wrap_until *)
        intros whole Hall level names st ts ns nm args r st' S I H.
        rewrite wrap_until_unfold in H. destruct ts as [|a l]; [discriminate H|]. cbv zeta in H.
        crunch H; try finish; subst; fwd Helem Hwrap Hif Hdoc Hfile; try solve [leaf].
        match goal with Hstop : (if a_is_sym a ?s then _ else None) = Some _ |- _ =>
          destruct (a_is_sym a s); [|discriminate Hstop];
          destruct l as [|b l']; [discriminate Hstop|];
          destruct (a_is_ident b && str_in (tval (a_tok b)) names); [|discriminate Hstop];
          injection Hstop as <- <-
        end.
        fwd Helem Hwrap Hif Hdoc Hfile. leaf.
      + (* parse_tag *)
        intros whole Hall level st ts n r st' S I Hhead H.
        destruct ts as [|nm l]; [discriminate H|]. rewrite parse_tag_S in H. cbv zeta in H.
        crunch H; fwd Helem Hwrap Hif Hdoc Hfile.
        match goal with
        | Hc : collect_args l [] = Some (?args, ?body), Hg : assoc_get _ tag_impl = Some ?impl,
          Hi : negb (a_is_ident nm) = false, Sb : suffix ?body whole, Sl : suffix l whole |- _ =>
            apply negb_false_iff in Hi;
            apply (Htp _ Hall _ _ _ _ _ _ _ _ Sb I) in H; [exact H|];
            exact (tag_args_ok _ _ _ _ _ _ _ _ _ Htab Hi Hg Hc (scan_nsp _ _ _ _ _ (nt_suffix _ _ _ _ _ _ Sl Hall)) Hhead)
        end.
      + (* tag_parser *)
        intros whole Hall level impl args st ts n r st' S I Hargs H.
        pose proof (args_ok_nsp _ _ _ _ _ Hargs) as Hnsp.
        rewrite tag_parser_unfold in H. cbv zeta in H.
        crunch H; try finish; subst; fwd Helem Hwrap Hif Hdoc Hfile; try solve [leaf].
        all: tp_special Hif.
      + (* if_branches *)
        intros whole Hall level conds ws st ts cs ws' r st' S I Hws H.
        rewrite if_branches_unfold in H. cbv zeta in H.
        crunch H; try finish; subst; fwd Helem Hwrap Hif Hdoc Hfile; try solve [leaf].
        all: match goal with
             | E : if_branches se _ _ _ (?w ++ [?b]) ?st ?ts = Ok _, S : suffix ?ts ?wh, HA : NT ?wh,
               I : ok_pst ?st = true, Hb : forallb okn ?b = true |- _ =>
                 apply (Hif _ HA _ _ (w ++ [b]) _ _ _ _ _ _ S I) in E; [exact E|];
                 rewrite forallb_app; cbn [forallb]; rewrite Hws, Hb; reflexivity
             end.
      + (* parse_doc *)
        intros whole Hall st ts ns st' S I H.
        rewrite parse_doc_unfold in H. cbv zeta in H.
        crunch H; try finish; subst; fwd Helem Hwrap Hif Hdoc Hfile; try solve [leaf].
      + (* compile_src *)
        intros name isstr src g t g' Hsrc' H.
        rewrite compile_src_unfold in H. crunch H.
        match goal with H : Ok _ = Ok _ |- _ => injection H as <- <- end.
        match goal with E : parse_doc se f (?tst, ?g1) (annotate None ?toks) = Ok _ |- _ =>
          apply (Hdoc (annotate None toks)) in E
        end.
        * leaf.
        * unfold toks_of. rewrite annotate_toks. unfold scan_source in Hsrc'.
          match goal with Hl : lex src = LexOk _ |- _ => rewrite Hl in Hsrc' end. exact Hsrc'.
        * apply suffix_refl.
        * reflexivity.
      + (* compile_file *)
        intros path g t g' H.
        rewrite compile_file_unfold in H. crunch H.
        match goal with Hf : fetch se path g = Ok (?c, ?g1) |- _ =>
          pose proof (fetch_in_set _ _ _ _ _ _ _ _ _ Hset Hf) as Hc
        end.
        eapply Hsrc; eassumption.
  Qed.
End Doc.

(* ------------------------------------------------------------------------------------ *)
(* What the induction gives, for any predicate with these equations                      *)
(* ------------------------------------------------------------------------------------ *)
Section Generic.
  Variable lit : str -> bool.
  Variable fn : list str.
  Variable spl lz : bool.
  Variable okn : node -> bool.
  Variable okm : macro -> bool.
  Variable okt : template -> bool.
  Hypothesis OE : ok_eqs lit fn spl lz okn okm okt.
  Hypothesis Htab : tag_names_ok tag_impl = true.
  Hypothesis Htt : forallb (fun kv => lit (snd kv)) templatetag_map = true.

  Lemma compile_src_ok_g : forall se f name isstr src g t g',
    scan_set lit fn spl lz se = true -> scan_source lit fn spl lz src = true ->
    compile_src se f name isstr src g = Ok (t, g') -> okt t = true.
  Proof.
    intros se f name isstr src g t g' Hset Hs H.
    destruct (doc_inv_all se lit fn spl lz okn okm okt OE Hset Htab Htt f) as (_ & _ & _ & _ & _ & _ & H7 & _).
    pose proof (H7 name isstr src g t g' Hs H) as P. unfold ok_tpl_x in P.
    apply andb_prop in P. exact (proj1 P).
  Qed.

  Lemma compile_file_ok_g : forall se f name g t g',
    scan_set lit fn spl lz se = true ->
    compile_file se f name g = Ok (t, g') ->
    okt t = true /\ forallb (fun m => okm (snd m)) (tpl_exported t) = true.
  Proof.
    intros se f name g t g' Hset H.
    destruct (doc_inv_all se lit fn spl lz okn okm okt OE Hset Htab Htt f) as (_ & _ & _ & _ & _ & _ & _ & H8).
    pose proof (H8 name g t g' H) as P. unfold ok_tpl_x in P.
    apply andb_prop in P. exact P.
  Qed.

  Lemma parse_doc_ok_g : forall se f tst g toks ns st',
    scan_set lit fn spl lz se = true -> scan_tokens lit fn spl lz toks = true ->
    t_blocks tst = [] -> t_exported tst = [] -> t_parent tst = None ->
    parse_doc se f (tst, g) (annotate None toks) = Ok (ns, st') -> forallb okn ns = true.
  Proof.
    intros se f tst g toks ns st' Hset Ht Hb He Hp H.
    destruct (doc_inv_all se lit fn spl lz okn okm okt OE Hset Htab Htt f) as (_ & _ & _ & _ & _ & H6 & _ & _).
    refine (proj1 (H6 (annotate None toks) _ (tst, g) _ ns st' (suffix_refl _ _) _ H)).
    - unfold toks_of. rewrite annotate_toks. exact Ht.
    - unfold ok_pst, ok_tst. cbn [fst]. rewrite Hb, He, Hp. reflexivity.
  Qed.
End Generic.

(* ------------------------------------------------------------------------------------ *)
(* The statements Props/C02c.v cites: Part I                                             *)
(* ------------------------------------------------------------------------------------ *)
Definition templatetags_inert (tbl : list (str * str)) : bool :=
  forallb (fun kv => inert_text (snd kv)) tbl.

Section Statements.
  Hypothesis Htab : tag_names_ok tag_impl = true.
  Hypothesis Htt : templatetags_inert templatetag_map = true.

  (* a source without opt-out tokens, over a set whose files are all without opt-out tokens:
     what the compiler builds (when it succeeds) is without opt-outs *)
  Lemma compile_src_ok_template : forall lz se f name isstr src g t g',
    no_optout_set lz se = true -> no_optout_source lz src = true ->
    compile_src se f name isstr src g = Ok (t, g') -> ok_template lz t = true.
  Proof. intros lz. exact (compile_src_ok_g _ _ _ _ _ _ _ (ok_eqs_plain lz) Htab Htt). Qed.

  (* every file of such a set compiles to a template without opt-outs, whose exported macros
     (the ones an import copies) are without opt-outs too *)
  Lemma compile_file_ok_template : forall lz se f name g t g',
    no_optout_set lz se = true ->
    compile_file se f name g = Ok (t, g') ->
    ok_template lz t = true /\ forallb (fun m => ok_macro lz (snd m)) (tpl_exported t) = true.
  Proof. intros lz. exact (compile_file_ok_g _ _ _ _ _ _ _ (ok_eqs_plain lz) Htab Htt). Qed.

  (* ... which is the hypothesis [lazy_ok] of Props/C02.v *)
  Lemma lazy_ok_of_set : forall lz se, no_optout_set lz se = true -> lazy_ok lz se.
  Proof.
    intros lz se Hset _ f name g t g' H. exact (proj1 (compile_file_ok_template lz se f name g t g' Hset H)).
  Qed.

  (* parsing a token list directly (the parser's own entry, below the lexer) *)
  Lemma parse_doc_ok_nodes : forall lz se f tst g toks ns st',
    no_optout_set lz se = true -> no_optout_tokens lz toks = true ->
    t_blocks tst = [] -> t_exported tst = [] -> t_parent tst = None ->
    parse_doc se f (tst, g) (annotate None toks) = Ok (ns, st') -> ok_nodes lz ns = true.
  Proof. intros lz. exact (parse_doc_ok_g _ _ _ _ _ _ _ (ok_eqs_plain lz) Htab Htt). Qed.
End Statements.

(* ------------------------------------------------------------------------------------ *)
(* Part II: templates whose own text contains markup                                     *)
(* ------------------------------------------------------------------------------------ *)
Lemma forallb_map : forall (A B : Type) (p : B -> bool) (g : A -> B) (l : list A),
  forallb p (map g l) = forallb (fun x => p (g x)) l.
Proof. intros A B p g l. induction l as [|a l IH]; [reflexivity|]. cbn [map forallb]. rewrite IH. reflexivity. Qed.

Section StatementsMarkup.
  Hypothesis Htab : tag_names_ok tag_impl = true.
  Variable lit : str -> bool.
  Hypothesis Hlit : templatetags_in lit = true.

  Lemma templatetags_in_table : forallb (fun kv => lit (snd kv)) templatetag_map = true.
  Proof. unfold templatetags_in, templatetag_texts in Hlit. rewrite forallb_map in Hlit. exact Hlit. Qed.

  Lemma compile_src_ok_template_m : forall lz se f name isstr src g t g',
    no_optout_set_m lit lz se = true -> no_optout_source_m lit lz src = true ->
    compile_src se f name isstr src g = Ok (t, g') -> ok_template_m lit lz t = true.
  Proof. intros lz. exact (compile_src_ok_g _ _ _ _ _ _ _ (ok_eqs_markup lit lz) Htab templatetags_in_table). Qed.

  Lemma compile_file_ok_template_m : forall lz se f name g t g',
    no_optout_set_m lit lz se = true ->
    compile_file se f name g = Ok (t, g') ->
    ok_template_m lit lz t = true /\ forallb (fun m => ok_macro_m lit lz (snd m)) (tpl_exported t) = true.
  Proof. intros lz. exact (compile_file_ok_g _ _ _ _ _ _ _ (ok_eqs_markup lit lz) Htab templatetags_in_table). Qed.

  Lemma lazy_m_of_set : forall lz se, no_optout_set_m lit lz se = true -> lazy_m lit lz se.
  Proof.
    intros lz se Hset _ f name g t g' H. exact (proj1 (compile_file_ok_template_m lz se f name g t g' Hset H)).
  Qed.

  Lemma parse_doc_ok_nodes_m : forall lz se f tst g toks ns st',
    no_optout_set_m lit lz se = true -> no_optout_tokens_m lit lz toks = true ->
    t_blocks tst = [] -> t_exported tst = [] -> t_parent tst = None ->
    parse_doc se f (tst, g) (annotate None toks) = Ok (ns, st') -> ok_nodes_m lit lz ns = true.
  Proof. intros lz. exact (parse_doc_ok_g _ _ _ _ _ _ _ (ok_eqs_markup lit lz) Htab templatetags_in_table). Qed.
End StatementsMarkup.

(* the natural [lit]: every text token of the given sources is accepted, and so is what a
   templatetag tag writes *)
Lemma str_in_app : forall v a b, str_in v (a ++ b) = str_in v a || str_in v b.
Proof. intros v a b. unfold str_in. apply existsb_app. Qed.

Lemma str_in_In : forall v l, In v l -> str_in v l = true.
Proof.
  intros v l H. unfold str_in. apply existsb_exists. exists v. split; [exact H|apply cstr_eqb_refl].
Qed.

Lemma str_in_true_In : forall v l, str_in v l = true -> In v l.
Proof.
  intros v l H. unfold str_in in H. apply existsb_exists in H. destruct H as [x [Hin Hx]].
  apply cstr_eqb_eq in Hx. subst x. exact Hin.
Qed.

Lemma lit_of_templatetags : forall srcs, templatetags_in (lit_of srcs) = true.
Proof.
  intros srcs. unfold templatetags_in. apply forallb_forall. intros v Hv.
  unfold lit_of. rewrite str_in_app, (str_in_In _ _ Hv). apply orb_true_r.
Qed.

(* ... and every text token of the given sources: with [lit_of] the scan need not look at
   literal text *)
Lemma scan_tokens_lit : forall lit fn spl lz ts,
  (forall t, In t ts -> ttyp t = THTML -> lit (tval t) = true) ->
  scan_tokens any_text fn spl lz ts = true -> scan_tokens lit fn spl lz ts = true.
Proof.
  intros lit fn spl lz. induction ts as [|t r IH]; intros Hl H; [reflexivity|].
  rewrite scan_cons in *. apply andb_prop in H. destruct H as [H1 H2].
  rewrite (IH (fun t' Hi => Hl t' (or_intror Hi)) H2), andb_true_r.
  unfold tok_optout in *. destruct (ttyp t) eqn:Et; try exact H1.
  rewrite (Hl t (or_introl eq_refl) Et). reflexivity.
Qed.

Lemma text_tokens_in : forall src toks t,
  lex src = LexOk toks -> In t toks -> ttyp t = THTML -> In (tval t) (text_tokens src).
Proof.
  intros src toks t Hl Hi Ht. unfold text_tokens. rewrite Hl. apply in_flat_map.
  exists t. split; [exact Hi|]. rewrite Ht. left. reflexivity.
Qed.

Lemma scan_source_lit_of : forall fn spl lz srcs src,
  In src srcs -> scan_source any_text fn spl lz src = true -> scan_source (lit_of srcs) fn spl lz src = true.
Proof.
  intros fn spl lz srcs src Hin H. unfold scan_source in *.
  destruct (lex src) as [toks| |] eqn:Hl; try reflexivity.
  apply scan_tokens_lit; [|exact H]. intros t Hi Ht.
  unfold lit_of. rewrite str_in_app. apply orb_true_iff. left. apply str_in_In.
  apply in_flat_map. exists src. split; [exact Hin|]. exact (text_tokens_in _ _ _ Hl Hi Ht).
Qed.

Lemma scan_set_lit_of : forall fn spl lz srcs se,
  (forall kv, In kv (flat_map l_files (se_loaders se)) -> In (snd kv) srcs) ->
  scan_set any_text fn spl lz se = true -> scan_set (lit_of srcs) fn spl lz se = true.
Proof.
  intros fn spl lz srcs se Hall H. unfold scan_set in *. rewrite forallb_forall in *.
  intros kv Hin. exact (scan_source_lit_of _ _ _ _ _ (Hall kv Hin) (H kv Hin)).
Qed.

(* the world's files and the entry source, scanned without looking at literal text *)
Lemma own_text_scans : forall lz w src,
  no_optout_world_t lz w = true -> no_optout_source_t lz src = true ->
  no_optout_world_m (lit_of (src :: world_sources w)) lz w = true /\
  no_optout_source_m (lit_of (src :: world_sources w)) lz src = true.
Proof.
  intros lz w src Hw Hs. split.
  - apply scan_set_lit_of; [|exact Hw]. intros kv Hin. right. unfold world_sources.
    apply in_map. exact Hin.
  - apply scan_source_lit_of; [left; reflexivity|exact Hs].
Qed.

(* ------------------------------------------------------------------------------------ *)
(* allowing lazy includes only weakens the scan                                          *)
(* ------------------------------------------------------------------------------------ *)
Section Mono.
  Variable lit : str -> bool.
  Variable fn : list str.
  Variable spl : bool.

  Lemma tag_optout_mono : forall rest, tag_optout fn spl true rest = true -> tag_optout fn spl false rest = true.
  Proof.
    intros [|nm args] H; [discriminate H|]. cbn [tag_optout] in *.
    destruct (is_typ nm TIdentifier); [|discriminate H]. cbn [andb] in *.
    cbn [negb] in H. rewrite andb_false_r in H. cbn [negb]. rewrite andb_true_r.
    rewrite orb_false_r in H.
    apply orb_true_iff in H. destruct H as [H|H]; [|rewrite H; apply orb_true_r].
    rewrite H. reflexivity.
  Qed.

  Lemma scan_tokens_mono : forall ts,
    scan_tokens lit fn spl false ts = true -> scan_tokens lit fn spl true ts = true.
  Proof.
    induction ts as [|t r IH]; intro H; [reflexivity|]. rewrite scan_cons in *.
    apply andb_prop in H. destruct H as [H1 H2]. rewrite (IH H2), andb_true_r.
    apply negb_true_iff in H1. apply negb_true_iff.
    unfold tok_optout in *. destruct (ttyp t); try exact H1.
    all: apply orb_false_iff in H1; destruct H1 as [Ha Hb]; rewrite Ha; cbn [orb];
         destruct (is_sym t y_tag_open); [|reflexivity]; cbn [andb] in *;
         destruct (tag_optout fn spl true r) eqn:E; [|reflexivity];
         rewrite (tag_optout_mono _ E) in Hb; discriminate Hb.
  Qed.

  Lemma scan_source_mono : forall src,
    scan_source lit fn spl false src = true -> scan_source lit fn spl true src = true.
  Proof.
    intros src H. unfold scan_source in *. destruct (lex src); try reflexivity.
    exact (scan_tokens_mono _ H).
  Qed.

  Lemma scan_set_mono : forall se, scan_set lit fn spl false se = true -> scan_set lit fn spl true se = true.
  Proof.
    intros se H. unfold scan_set in *. rewrite forallb_forall in *.
    intros kv Hin. exact (scan_source_mono _ (H kv Hin)).
  Qed.
End Mono.

Lemma no_optout_source_mono : forall src, no_optout_source false src = true -> no_optout_source true src = true.
Proof. exact (scan_source_mono _ _ _). Qed.
Lemma no_optout_set_mono : forall se, no_optout_set false se = true -> no_optout_set true se = true.
Proof. exact (scan_set_mono _ _ _). Qed.

Print Assumptions compile_src_ok_template.
Print Assumptions compile_file_ok_template.
Print Assumptions lazy_ok_of_set.
Print Assumptions parse_doc_ok_nodes.
Print Assumptions compile_src_ok_template_m.
Print Assumptions lazy_m_of_set.
Print Assumptions lit_of_templatetags.
Print Assumptions own_text_scans.
Print Assumptions no_optout_set_mono.
