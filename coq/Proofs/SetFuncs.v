(* Lemmas and the proof scripts for the tie of the translated template-set functions
   (gen/SetFuncs.v, interpreted by Spec/SpecSetFuncs.v) to the set state machine Model/SetModel.v.

   - unfolding equations of the interpretation (one call level, one statement, the range loop);
   - [range_loop_steps]: a range loop whose body, for every element, falls through with the outer
     variables unchanged and the world changed by [step], runs [step] over the elements in order;
   - CleanCache's loop: the world after deleting every resolved name, and that this is the model's
     filter; the lock discipline of a trace of writes;
   - [sf_crunch]: the script Tie/C20w.v and Tie/C03w.v run on every regenerated term: evaluate the
     interpretation (the model's compiler, the loader's Abs, the table lookups stay folded), split
     on what is left (Debug, the created flag, a lookup, the outcome of the compile), compare. *)
From PV Require Import Model.SetModel Lib.GoStmt Spec.SpecSet Spec.SpecSetFuncs.
From Coq Require Import String Lia.
Open Scope string_scope.

(* ---------- unfolding equations ---------- *)
Section Unfold.
  Variable tags filters : list str.
  Variable ext : string -> list sval -> sworld -> list sval * sworld.
  Variable callr : sval -> string -> list sval -> sworld -> skont -> sans.

  (* the statements of a block, as sf_exec runs them (its local fixpoint) *)
  Definition exec_block (kr : rkont) : list gstmt -> venv -> dstack -> sworld -> nkont -> sans :=
    fix exl (l : list gstmt) (env : venv) (ds : dstack) (w : sworld) (kn' : nkont) {struct l} : sans :=
      match l with
      | [] => kn' env ds w
      | s1 :: r => sf_exec tags filters ext callr s1 env ds w (fun env1 ds1 w1 => exl r env1 ds1 w1 kn') kr
      end.

  Lemma sf_exec_list_nil : forall env ds w kn kr,
    sf_exec_list tags filters ext callr [] env ds w kn kr = kn env ds w.
  Proof. reflexivity. Qed.

  Lemma sf_exec_list_cons : forall s r env ds w kn kr,
    sf_exec_list tags filters ext callr (s :: r) env ds w kn kr =
    sf_exec tags filters ext callr s env ds w
            (fun env1 ds1 w1 => sf_exec_list tags filters ext callr r env1 ds1 w1 kn kr) kr.
  Proof. reflexivity. Qed.

  Lemma sf_exec_range : forall key val coll body env ds w kn kr,
    sf_exec tags filters ext callr (GSRange key val coll body) env ds w kn kr =
    sf_eval tags filters ext callr coll env w (one (fun v w1 =>
      match v with
      | SVStrs l => range_loop (fun env' ds' w' kn' => exec_block kr body env' ds' w' kn') key val l 0 env ds w1 kn
      | _ => GStuck "range over a value that is not a []string"
      end)).
  Proof. reflexivity. Qed.
End Unfold.

(* two call levels; what lies deeper is [sf_call ... d] *)
Lemma set_call_SS : forall prog tags filters ext d m args w,
  set_call prog tags filters ext (S (S d)) m args w =
  sf_call_step prog tags filters ext (sf_call_step prog tags filters ext (sf_call prog tags filters ext d))
               SVSet m args w (fun vs w' => GOk (vs, w')).
Proof. reflexivity. Qed.

(* ---------- the range loop ---------- *)
Lemma range_loop_cons : forall bodyf key val x l i env ds w kn,
  range_loop bodyf key val (x :: l) i env ds w kn =
  match all_lhs env_define [key; val] [SVInt i; SVStr x] ([] :: env) with
  | Some env1 =>
      bodyf ([] :: env1) ds w (fun env2 ds2 w2 => range_loop bodyf key val l (S i) (tl (tl env2)) ds2 w2 kn)
  | None => GStuck "range variables"
  end.
Proof. reflexivity. Qed.

Lemma range_loop_steps : forall bodyf key val (step : str -> sworld -> sworld) env ds,
  (forall x i w kn', exists a b,
     match all_lhs env_define [key; val] [SVInt i; SVStr x] ([] :: env) with
     | Some env1 => bodyf ([] :: env1) ds w kn'
     | None => GStuck "range variables"
     end = kn' (a :: b :: env) ds (step x w)) ->
  forall l i w kn,
    range_loop bodyf key val l i env ds w kn = kn env ds (fold_left (fun w x => step x w) l w).
Proof.
  intros bodyf key val step env ds H l. induction l as [|x l IH]; intros i w kn.
  - reflexivity.
  - rewrite range_loop_cons. cbn [fold_left].
    destruct (H x i w (fun env2 ds2 w2 => range_loop bodyf key val l (S i) (tl (tl env2)) ds2 w2 kn)) as [a [b E]].
    etransitivity; [exact E|]. cbn [tl]. apply IH.
Qed.

(* ---------- CleanCache's loop ---------- *)
(* one iteration: delete(set.templateCache, set.resolveFilename(nil, x)) *)
Definition cleancache_step (x : str) (w : sworld) : sworld :=
  log_event EvCacheWrite
    (upd_state w (st_set_cache (sw_state w) (cache_delete (fsloader_abs [] x) (s_cache (sw_state w))))).

Lemma cleancache_fold : forall l w,
  fold_left (fun w x => cleancache_step x w) l w =
  mkSW (st_set_cache (sw_state w) (fold_left (fun c x => cache_delete (fsloader_abs [] x) c) l (s_cache (sw_state w))))
       (sw_locked w) (sw_trace w ++ repeat EvCacheWrite (List.length l)).
Proof.
  induction l as [|x l IH]; intros [[files created btags bfilters cache debug stamp fetches] lk tr].
  - cbn. rewrite app_nil_r. reflexivity.
  - cbn [fold_left]. rewrite IH. cbn. rewrite <- app_assoc. reflexivity.
Qed.

Lemma str_in_cons : forall a x l, str_in a (x :: l) = (str_eqb a x || str_in a l)%bool.
Proof. reflexivity. Qed.

(* deleting the resolved names one after the other = the model's filter *)
Lemma cleancache_fold_filter : forall l (c : list (str * N)),
  fold_left (fun c x => cache_delete (fsloader_abs [] x) c) l c =
  filter (fun kv => negb (str_in (fst kv) (map (fsloader_abs []) l))) c.
Proof.
  induction l as [|x l IH]; intros c.
  - cbn [fold_left map]. induction c as [|kv c IHc]; [reflexivity|].
    cbn [filter]. change (str_in (fst kv) []) with false. cbn [negb]. f_equal. exact IHc.
  - cbn [fold_left map]. rewrite IH. unfold cache_delete.
    induction c as [|kv c IHc]; [reflexivity|].
    cbn [filter]. rewrite str_in_cons.
    destruct (str_eqb (fst kv) (fsloader_abs [] x)); cbn [negb orb].
    + exact IHc.
    + cbn [filter]. destruct (negb (str_in (fst kv) (map (fsloader_abs []) l))); [f_equal|]; exact IHc.
Qed.

(* ---------- the lock discipline ---------- *)
Lemma lock_scan_app : forall a b held,
  lock_scan held (a ++ b) = match lock_scan held a with Some h => lock_scan h b | None => None end.
Proof.
  induction a as [|e a IH]; intros b held; [reflexivity|].
  cbn [app lock_scan]. destruct e, held; try reflexivity; apply IH.
Qed.

Lemma lock_scan_writes : forall n, lock_scan true (repeat EvCacheWrite n) = Some true.
Proof. induction n as [|n IH]; [reflexivity|]. cbn [repeat lock_scan]. exact IH. Qed.

(* ---------- the script ---------- *)
(* evaluate the interpretation; the model's compiler, the loader's Abs and the lookups stay folded *)
Ltac sf_eval :=
  lazy - [s_compile_file fsloader_abs assoc_get str_in range_loop fold_left cache_delete filter map repeat app].
(* the same, stopping at the next statement of the function's body and at a loop's body *)
Ltac sf_eval_stmt :=
  lazy - [s_compile_file fsloader_abs assoc_get str_in range_loop fold_left cache_delete filter map repeat app
          sf_exec_list exec_block].
(* one case split on something folded or on a variable, then evaluate again *)
Ltac sf_split :=
  match goal with
  | |- context [s_compile_file ?s ?n] => destruct (s_compile_file s n) as [[?t|?k| | |?p] ?cnt]
  | |- context [assoc_get ?k ?c] => destruct (assoc_get k c) as [?st|]
  | |- context [str_in ?n ?l] => destruct (str_in n l)
  | |- context [if ?b then _ else _] => is_var b; destruct b
  end.
(* every split removes one unknown from the path; nothing left to split and not equal: fail *)
Ltac sf_crunch :=
  sf_eval;
  first [ reflexivity
        | sf_split; sf_crunch
        | fail 1 "this run of the translated Go function differs from the set state machine of Model/SetModel.v" ].
(* the depth hypothesis 2 <= d: peel two levels, forget what lies deeper *)
Ltac peel_two d H :=
  do 2 (destruct d as [|d]; [exfalso; lia|]); clear H; rewrite set_call_SS;
  match goal with |- context [sf_call ?p ?t ?f ?e d] => generalize (sf_call p t f e d); intro end.
(* run the statements of the body one by one until a range loop is the next one, then open it *)
Ltac sf_to_range :=
  sf_eval_stmt;
  repeat (lazymatch goal with
          | |- context [sf_exec_list _ _ _ _ (GSRange _ _ _ _ :: _)] => fail
          | |- context [sf_exec_list _ _ _ _ (_ :: _)] => rewrite sf_exec_list_cons; sf_eval_stmt
          end);
  rewrite sf_exec_list_cons, sf_exec_range; sf_eval_stmt.

(* CleanCache with at least one name: run up to the loop, replace the loop by what its turns do
   (each turn: delete the resolved name from the cache and go on), run to the end *)
Ltac sf_cleancache_loop :=
  sf_to_range;
  first [ rewrite (range_loop_steps _ _ _ cleancache_step)
            by (intros ?x ?i ?w ?kn'; do 2 eexists; sf_eval; reflexivity)
        | fail 1 "one turn of the translated loop is not: delete the resolved name from the cache map, go on" ];
  sf_eval_stmt; rewrite sf_exec_list_nil, cleancache_fold; sf_eval.

(* ---------- the functions that create a template ---------- *)
Lemma sf_call_step_eq : forall prog tags filters ext deeper recv m args w k,
  sf_call_step prog tags filters ext deeper recv m args w k =
  match match type_of recv with Some ty => find_method ty m prog | None => None end with
  | Some fn => sf_call_func tags filters ext deeper fn recv args w k
  | None => builtin ext recv m args w k
  end.
Proof. reflexivity. Qed.

(* [cr_crunch ext H], H : keeps_flag ext, proves [flag_set (run)]: evaluate (a method call stays
   folded until its receiver is known), name the outcome of the next call of [ext] - the flag is
   still set after it, by H -, split on what the run looks at, again. *)
Ltac cr_eval := lazy - [is_nil sf_call_step s_compile_file fsloader_abs].
Ltac cr_ext ext H :=
  match goal with
  | |- context [ext ?m ?a ?w] =>
      let Hf := fresh "Hflag" in
      assert (Hf : s_created (sw_state (snd (ext m a w))) = true) by (apply H; first [assumption | reflexivity]);
      destruct (ext m a w) as [?vs ?w']; cbn [snd] in Hf
  end.
Ltac cr_var :=
  match goal with
  | |- context [sf_call_step _ _ _ _ _ ?v _ _ _ _] => first [is_var v; destruct v | idtac]; rewrite sf_call_step_eq
  | |- context [s_compile_file ?s ?n] => destruct (s_compile_file s n) as [[?t|?k| | |?p] ?cnt]
  | |- context [is_nil ?v] => destruct (is_nil v)
  | |- context [match ?x with _ => _ end] => is_var x; destruct x
  | |- context [if ?b then _ else _] => destruct b
  end.
Ltac cr_crunch ext H :=
  cr_eval;
  first [ exact I | assumption | reflexivity
        | cr_ext ext H; cr_crunch ext H
        | cr_var; cr_crunch ext H
        | fail 1 "a run of the translated Go function can end with firstTemplateCreated not set" ].
(* Hin : In f [f1; ...; fn] - run tac for every fi *)
Ltac each_member Hin tac :=
  lazymatch type of Hin with
  | _ \/ _ => let H1 := fresh in destruct Hin as [H1|Hin]; [subst; tac | each_member Hin tac]
  | False => destruct Hin
  end.
