(* Property C01, what links the compile half to the execution half: everything the compiler
   (Model/ParseExpr.v, Model/ParseDoc.v) returns is well-formed in the sense the executor
   needs (Spec/SpecWf.v for expressions, Spec/SpecWfParse.v for nodes, macros, templates).

   [okp P r] says: if the outcome [r] is [Ok a] then [P a].  A parser function satisfies its
   clause when [okp P (body)] holds; the body is walked one [match] at a time ([bind] is
   unfolded, so a bind is a match on an outcome): the innermost scrutinee is destructed; when
   it is a call covered by an induction hypothesis or a lemma, what that call guarantees of
   its result is kept.  Leaves are [Ok v] (prove [P v] from the collected facts), error
   outcomes (nothing to prove) and tail calls (apply the hypothesis).  The one-step unfolding
   of the mutual fixpoints is unfold-then-fold, as in Proofs/NoPanicParse.v: no copy of a
   parser body in this file, an edited tag parser re-proves by itself as long as it builds
   its nodes from parsed pieces. *)
From Coq Require Import List NArith ZArith Bool Lia Arith.
From PV Require Import Lib.Outcome Model.Lexer Model.ParseExpr Model.ParseDoc Model.Exec Model.Api.
From PV Require Import Spec.SpecWf Spec.SpecWfParse.
Import ListNotations.
Open Scope N_scope.

(* ------------------------------------------------------------------------------------ *)
(* "if Ok then P"                                                                        *)
(* ------------------------------------------------------------------------------------ *)
Definition okp {A : Type} (P : A -> Prop) (r : res A) : Prop :=
  match r with Ok a => P a | _ => True end.

Lemma okp_ok : forall (A : Type) (P : A -> Prop) (r : res A) (a : A), okp P r -> r = Ok a -> P a.
Proof. intros A P r a H E. rewrite E in H. exact H. Qed.

(* ------------------------------------------------------------------------------------ *)
(* boolean list facts                                                                    *)
(* ------------------------------------------------------------------------------------ *)
Lemma forallb_rev : forall (A : Type) (P : A -> bool) (l : list A), forallb P (rev l) = forallb P l.
Proof.
  intros A P l. induction l as [|a l IH]; [reflexivity|].
  cbn [rev forallb]. rewrite forallb_app, IH. cbn [forallb]. rewrite andb_true_r. apply andb_comm.
Qed.

Lemma wf_pairs_cons_eq : forall k e r, wf_pairs ((k, e) :: r) = wf_expr e && wf_pairs r.
Proof. reflexivity. Qed.
Lemma wf_oparams_cons_eq : forall k o r, wf_oparams ((k, o) :: r) = opt_all wf_expr o && wf_oparams r.
Proof. reflexivity. Qed.
Lemma wf_pairs_nil : wf_pairs [] = true.
Proof. reflexivity. Qed.
Lemma wf_oparams_nil : wf_oparams [] = true.
Proof. reflexivity. Qed.

(* a variable's parts, kept reversed by the variable loop: the LAST one is the identifier *)
Fixpoint rp_ok (parts : list part) : bool :=
  match parts with
  | [] => false
  | p :: ps =>
      match ps with
      | [] => match p with PIdent _ _ => true | _ => false end
      | _ :: _ => rp_ok ps
      end
  end.

Lemma rp_ok_cons : forall p ps, rp_ok ps = true -> rp_ok (p :: ps) = true.
Proof. intros p [|q ps] H; [discriminate H|]. exact H. Qed.

Lemma rp_ok_rev : forall ps, rp_ok ps = true ->
  exists s c rest, rev ps = PIdent s c :: rest.
Proof.
  induction ps as [|p ps IH]; intro H; [discriminate H|].
  destruct ps as [|q ps].
  - destruct p as [s c|i c|e c]; try discriminate H. exists s, c, []. reflexivity.
  - destruct (IH H) as (s & c & rest & E). exists s, c, (rest ++ [p]).
    change (rev (p :: q :: ps)) with (rev (q :: ps) ++ [p]). rewrite E. reflexivity.
Qed.

Lemma wf_var_rev : forall ps, rp_ok ps = true -> forallb wf_part ps = true ->
  wf_expr (EVar (rev ps)) = true.
Proof.
  intros ps H W. destruct (rp_ok_rev ps H) as (s & c & rest & E).
  cbn [wf_expr]. rewrite E. rewrite <- E. rewrite forallb_rev. exact W.
Qed.

Lemma rp_ok_snoc : forall l s c, rp_ok (l ++ [PIdent s c]) = true.
Proof.
  induction l as [|a l IH]; intros s c; [reflexivity|].
  change ((a :: l) ++ [PIdent s c]) with (a :: (l ++ [PIdent s c])).
  specialize (IH s c). destruct (l ++ [PIdent s c]) as [|b r] eqn:E.
  - destruct l; discriminate E.
  - exact IH.
Qed.

Lemma wf_var_rev_inv : forall ps, wf_expr (EVar (rev ps)) = true ->
  rp_ok ps = true /\ forallb wf_part ps = true.
Proof.
  intros ps H. cbn [wf_expr] in H. destruct (rev ps) as [|[s c|i c|e c] rest] eqn:E; try discriminate H.
  split.
  - rewrite <- (rev_involutive ps), E. cbn [rev]. apply rp_ok_snoc.
  - rewrite <- E, forallb_rev in H. exact H.
Qed.

(* replacing the call of the newest part keeps the shape *)
Lemma rp_ok_recall_ident : forall s c c' ps, rp_ok (PIdent s c :: ps) = true -> rp_ok (PIdent s c' :: ps) = true.
Proof. intros s c c' [|q ps] H; [reflexivity|exact H]. Qed.
Lemma rp_ok_recall_int : forall i c c' ps, rp_ok (PInt i c :: ps) = true -> rp_ok (PInt i c' :: ps) = true.
Proof. intros i c c' [|q ps] H; [discriminate H|exact H]. Qed.
Lemma rp_ok_recall_sub : forall e c c' ps, rp_ok (PSub e c :: ps) = true -> rp_ok (PSub e c' :: ps) = true.
Proof. intros e c c' [|q ps] H; [discriminate H|exact H]. Qed.

(* looking a name up in a table of well-formed things *)
Lemma forallb_assoc_get : forall (A : Type) (P : A -> bool) (k : str) (l : list (str * A)) (v : A),
  forallb (fun x => P (snd x)) l = true -> assoc_get k l = Some v -> P v = true.
Proof.
  intros A P k l. induction l as [|[k' w] l IH]; intros v H E; simpl in E; [discriminate E|].
  cbn [forallb snd] in H. apply andb_prop in H. destruct H as [H1 H2].
  destruct (str_eqb k k'); [injection E as <-; exact H1|exact (IH v H2 E)].
Qed.

Lemma cwf_template_exported : forall t, cwf_template t = true ->
  forallb (fun m => cwf_macro (snd m)) (tpl_exported t) = true.
Proof.
  intros [i n s r b e p tr ls] H. cbn [cwf_template tpl_exported] in *.
  apply andb_prop in H. destruct H as [H _]. apply andb_prop in H. destruct H as [_ H]. exact H.
Qed.

(* ------------------------------------------------------------------------------------ *)
(* the walking tactics                                                                   *)
(* ------------------------------------------------------------------------------------ *)

(* facts in the context, normalised: conjunctions split, projections of pairs computed,
   boolean conjunctions split, well-formedness of a constructor computed *)
Ltac wfp_norm :=
  repeat match goal with
  | H : _ /\ _ |- _ => destruct H
  | H : True |- _ => clear H
  | H : true = true |- _ => clear H
  | H : context [fst (_, _)] |- _ => progress (cbn [fst snd] in H)
  | H : context [snd (_, _)] |- _ => progress (cbn [fst snd] in H)
  | H : okp _ (Ok _) |- _ => cbn [okp] in H
  | H : wf_pst (_, _) |- _ => unfold wf_pst, wf_tst in H; cbn [fst] in H
  | E : assoc_get _ ?l = Some ?m, W : forallb (fun x => cwf_macro (snd x)) ?l = true |- _ =>
      lazymatch goal with _ : cwf_macro m = true |- _ => fail | _ => idtac end;
      pose proof (forallb_assoc_get _ cwf_macro _ _ _ W E)
  | W : cwf_template ?t = true |- _ =>
      lazymatch goal with _ : forallb _ (tpl_exported t) = true |- _ => fail | _ => idtac end;
      pose proof (cwf_template_exported _ W)
  | H : _ && _ = true |- _ => apply andb_prop in H
  | H : wf_pairs (_ :: _) = true |- _ => rewrite wf_pairs_cons_eq in H
  | H : wf_oparams (_ :: _) = true |- _ => rewrite wf_oparams_cons_eq in H
  | H : _ = true |- _ =>
      progress (cbn [fst snd wf_expr wf_part wf_fcall opt_all forallb
                     cwf_node cwf_macro cwf_template] in H)
  end.

(* a goal made of boolean well-formedness facts *)
Ltac wfp_bool :=
  cbn [okp fst snd orb wf_expr wf_part wf_fcall opt_all forallb
       cwf_node cwf_macro cwf_template];
  rewrite ?forallb_app, ?forallb_rev, ?wf_pairs_cons_eq, ?wf_oparams_cons_eq;
  cbn [fst snd orb wf_expr wf_part wf_fcall opt_all forallb cwf_node cwf_macro cwf_template];
  repeat match goal with
         | H : ?x = true |- _ =>
             lazymatch x with true => fail | _ => idtac end; progress (rewrite H)
         end;
  try reflexivity.

Create HintDb wfp discriminated.
#[export] Hint Resolve rp_ok_cons rp_ok_recall_ident rp_ok_recall_int rp_ok_recall_sub wf_var_rev : wfp.

Ltac wfp_atom0 :=
  first [ exact I | assumption | solve [wfp_bool] | solve [cbn [okp fst snd]; eauto 3 with wfp]
        | solve [cbn [fst snd];
                 lazymatch goal with |- Nat.leb _ _ = true => apply Nat.leb_le | |- _ => idtac end;
                 rewrite ?app_length in *; cbn [length] in *; lia] ].
Ltac wfp_atom :=
  first [ wfp_atom0
        | solve [cbn [fst snd]; unfold wf_pst, wf_tst; cbn [fst t_blocks t_exported t_parent];
                 repeat match goal with |- _ /\ _ => split end; wfp_atom0] ].
Ltac wfp_leaf :=
  wfp_norm;
  first [ wfp_atom | solve [repeat match goal with |- _ /\ _ => split end; wfp_atom] ].

(* apply whichever hypothesis / hint speaks about this call; side conditions are leaves *)

Ltac wfp_known :=
  first [ match goal with H : _ |- _ => solve [eapply H; wfp_leaf] end
        | solve [eauto with wfp] ].

Ltac wfp_destruct x :=
  lazymatch x with
  | context [match ?y with _ => _ end] => wfp_destruct y
  | _ =>
      first [ is_var x; destruct x
            | let H := fresh "Hok" in
              eassert (H : okp _ x) by wfp_known;
              revert H; destruct x eqn:?; intro H; cbn [okp] in H
            | destruct x eqn:? ]
  end.

Ltac wfp_step :=
  lazy beta iota zeta delta [bind perr];
  lazymatch goal with
  | |- okp _ (match ?x with _ => _ end) => wfp_destruct x
  | |- okp _ (Ok _) => cbn [okp]; wfp_leaf
  | |- okp _ (Err _) => exact I
  | |- okp _ Unmod => exact I
  | |- okp _ Fuel => exact I
  | |- okp _ (Panic _) => exact I
  | |- okp _ _ => wfp_known
  end.
Ltac wfp_tac := repeat wfp_step.

(* ------------------------------------------------------------------------------------ *)
(* The expression parser: the 16 functions of the mutual fixpoint                        *)
(* ------------------------------------------------------------------------------------ *)
Definition res_wf_expr (x : expr * list token) : Prop := wf_expr (fst x) = true.

Section Expr.
  Variable cfg : pcfg.

  Definition expr_wf_at (f : nat) : Prop :=
    (forall ts, okp res_wf_expr (parse_expression cfg f ts)) /\
    (forall ts, okp res_wf_expr (parse_relational cfg f ts)) /\
    (forall ts, okp res_wf_expr (parse_simple cfg f ts)) /\
    (forall acc ts, wf_expr acc = true -> okp res_wf_expr (simple_loop cfg f acc ts)) /\
    (forall ts, okp res_wf_expr (parse_term cfg f ts)) /\
    (forall acc ts, wf_expr acc = true -> okp res_wf_expr (term_loop cfg f acc ts)) /\
    (forall ts, okp res_wf_expr (parse_power cfg f ts)) /\
    (forall ts, okp res_wf_expr (parse_factor cfg f ts)) /\
    (forall ts, okp res_wf_expr (parse_filtered cfg f ts)) /\
    (forall ts, okp (fun x => forallb wf_fcall (fst x) = true) (filter_loop cfg f ts)) /\
    (forall ts, okp (fun x => wf_fcall (fst x) = true) (parse_filter cfg f ts)) /\
    (forall ts, okp res_wf_expr (parse_var_or_lit cfg f ts)) /\
    (forall parts ts, rp_ok parts = true -> forallb wf_part parts = true ->
                      okp res_wf_expr (var_loop cfg f parts ts)) /\
    (forall acc ts, forallb wf_expr acc = true ->
                    okp (fun x => forallb wf_expr (fst x) = true) (args_loop cfg f acc ts)) /\
    (forall ts, okp res_wf_expr (parse_array cfg f ts)) /\
    (forall acc ts, forallb wf_expr acc = true -> okp res_wf_expr (array_loop cfg f acc ts)).

  Ltac expr_unfold :=
    unfold parse_expression, parse_relational, parse_simple, simple_loop, parse_term,
           term_loop, parse_power, parse_factor, parse_filtered, filter_loop, parse_filter,
           parse_var_or_lit, var_loop, args_loop, parse_array, array_loop;
    fold (parse_expression cfg) (parse_relational cfg) (parse_simple cfg) (simple_loop cfg)
         (parse_term cfg) (term_loop cfg) (parse_power cfg) (parse_factor cfg)
         (parse_filtered cfg) (filter_loop cfg) (parse_filter cfg) (parse_var_or_lit cfg)
         (var_loop cfg) (args_loop cfg) (parse_array cfg) (array_loop cfg).

  Lemma expr_wf : forall f, expr_wf_at f.
  Proof.
    induction f as [|f IH].
    - unfold expr_wf_at. repeat split; intros; exact I.
    - destruct IH as (IH1 & IH2 & IH3 & IH4 & IH5 & IH6 & IH7 & IH8 & IH9 & IH10 & IH11
                      & IH12 & IH13 & IH14 & IH15 & IH16).
      unfold expr_wf_at, res_wf_expr in *. repeat split; intros; expr_unfold.
      all: wfp_tac.
  Qed.
End Expr.

(* ---- the statements about the expression parser, in the form  "= Ok (e, rest) -> wf" ---- *)
Lemma parse_expr_wf : forall (cfg : pcfg) (fuel : nat),
  (forall ts e rest, parse_expression cfg fuel ts = Ok (e, rest) -> wf_expr e = true) /\
  (forall ts e rest, parse_relational cfg fuel ts = Ok (e, rest) -> wf_expr e = true) /\
  (forall ts e rest, parse_simple cfg fuel ts = Ok (e, rest) -> wf_expr e = true) /\
  (forall acc ts e rest, wf_expr acc = true -> simple_loop cfg fuel acc ts = Ok (e, rest) -> wf_expr e = true) /\
  (forall ts e rest, parse_term cfg fuel ts = Ok (e, rest) -> wf_expr e = true) /\
  (forall acc ts e rest, wf_expr acc = true -> term_loop cfg fuel acc ts = Ok (e, rest) -> wf_expr e = true) /\
  (forall ts e rest, parse_power cfg fuel ts = Ok (e, rest) -> wf_expr e = true) /\
  (forall ts e rest, parse_factor cfg fuel ts = Ok (e, rest) -> wf_expr e = true) /\
  (forall ts e rest, parse_filtered cfg fuel ts = Ok (e, rest) -> wf_expr e = true) /\
  (forall ts chain rest, filter_loop cfg fuel ts = Ok (chain, rest) -> forallb wf_fcall chain = true) /\
  (forall ts fc rest, parse_filter cfg fuel ts = Ok (fc, rest) -> wf_fcall fc = true) /\
  (forall ts e rest, parse_var_or_lit cfg fuel ts = Ok (e, rest) -> wf_expr e = true) /\
  (forall parts ts e rest, wf_expr (EVar (rev parts)) = true ->
     var_loop cfg fuel parts ts = Ok (e, rest) -> wf_expr e = true) /\
  (forall acc ts args rest, forallb wf_expr acc = true ->
     args_loop cfg fuel acc ts = Ok (args, rest) -> forallb wf_expr args = true) /\
  (forall ts e rest, parse_array cfg fuel ts = Ok (e, rest) -> wf_expr e = true) /\
  (forall acc ts e rest, forallb wf_expr acc = true ->
     array_loop cfg fuel acc ts = Ok (e, rest) -> wf_expr e = true).
Proof.
  intros cfg fuel.
  destruct (expr_wf cfg fuel) as (H1 & H2 & H3 & H4 & H5 & H6 & H7 & H8 & H9 & H10 & H11
                                  & H12 & H13 & H14 & H15 & H16).
  repeat split.
  all: try (intros ts e rest E;
            first [ exact (okp_ok _ _ _ _ (H1 ts) E) | exact (okp_ok _ _ _ _ (H2 ts) E)
                  | exact (okp_ok _ _ _ _ (H3 ts) E) | exact (okp_ok _ _ _ _ (H5 ts) E)
                  | exact (okp_ok _ _ _ _ (H7 ts) E) | exact (okp_ok _ _ _ _ (H8 ts) E)
                  | exact (okp_ok _ _ _ _ (H9 ts) E) | exact (okp_ok _ _ _ _ (H10 ts) E)
                  | exact (okp_ok _ _ _ _ (H11 ts) E) | exact (okp_ok _ _ _ _ (H12 ts) E)
                  | exact (okp_ok _ _ _ _ (H15 ts) E) ]).
  - intros acc ts e rest W E. exact (okp_ok _ _ _ _ (H4 acc ts W) E).
  - intros acc ts e rest W E. exact (okp_ok _ _ _ _ (H6 acc ts W) E).
  - intros parts ts e rest W E. apply wf_var_rev_inv in W. destruct W as [W1 W2].
    exact (okp_ok _ _ _ _ (H13 parts ts W1 W2) E).
  - intros acc ts args rest W E. exact (okp_ok _ _ _ _ (H14 acc ts W) E).
  - intros acc ts e rest W E. exact (okp_ok _ _ _ _ (H16 acc ts W) E).
Qed.

(* ------------------------------------------------------------------------------------ *)
(* The argument parsers of the tags (Model/ParseDoc.v, before the Compile section)      *)
(* ------------------------------------------------------------------------------------ *)
Lemma pexpr_wf : forall cfg ts, okp (fun x => wf_expr (fst x) = true) (pexpr cfg ts).
Proof. intros cfg ts. apply (expr_wf cfg (parse_fuel ts)). Qed.
Lemma pvarlit_wf : forall cfg ts, okp (fun x => wf_expr (fst x) = true) (pvarlit cfg ts).
Proof. intros cfg ts. apply (expr_wf cfg (parse_fuel ts)). Qed.
#[export] Hint Resolve pexpr_wf pvarlit_wf : wfp.

Lemma pexprs_wf : forall cfg f ts, okp (fun es => forallb wf_expr es = true) (pexprs cfg f ts).
Proof. intros cfg f. induction f as [|f IH]; intros ts; [exact I|]. cbn [pexprs]. wfp_tac. Qed.

Lemma with_pairs_new_wf : forall cfg f ts, okp (fun ps => wf_pairs ps = true) (with_pairs_new cfg f ts).
Proof. intros cfg f. induction f as [|f IH]; intros ts; [exact I|]. cbn [with_pairs_new]. wfp_tac. Qed.

Lemma with_pairs_old_wf : forall cfg f ts, okp (fun ps => wf_pairs ps = true) (with_pairs_old cfg f ts).
Proof. intros cfg f. induction f as [|f IH]; intros ts; [exact I|]. cbn [with_pairs_old]. wfp_tac. Qed.

Lemma include_pairs_wf : forall cfg f ts,
  okp (fun x => wf_pairs (fst (fst x)) = true) (include_pairs cfg f ts).
Proof. intros cfg f. induction f as [|f IH]; intros ts; [exact I|]. cbn [include_pairs]. wfp_tac. Qed.

Lemma macro_params_wf : forall cfg f ts, okp (fun x => wf_oparams (fst x) = true) (macro_params cfg f ts).
Proof. intros cfg f. induction f as [|f IH]; intros ts; [exact I|]. cbn [macro_params]. wfp_tac. Qed.

Lemma filter_tag_chain_wf : forall cfg f ts,
  okp (fun x => wf_oparams (fst x) = true) (filter_tag_chain cfg f ts).
Proof. intros cfg f. induction f as [|f IH]; intros ts; [exact I|]. cbn [filter_tag_chain]. wfp_tac. Qed.

Lemma cycle_args_wf : forall cfg f ts,
  okp (fun x => forallb wf_expr (fst (fst (fst x))) = true) (cycle_args cfg f ts).
Proof. intros cfg f. induction f as [|f IH]; intros ts; [exact I|]. cbn [cycle_args]. wfp_tac. Qed.

Lemma import_list_wf : forall f exported ts,
  forallb (fun m => cwf_macro (snd m)) exported = true ->
  okp (fun ms => forallb (fun am => cwf_macro (snd am)) ms = true) (import_list f exported ts).
Proof.
  induction f as [|f IH]; intros exported ts W; [exact I|]. cbn [import_list]. wfp_tac.
Qed.

#[export] Hint Resolve pexprs_wf with_pairs_new_wf with_pairs_old_wf include_pairs_wf
  macro_params_wf filter_tag_chain_wf cycle_args_wf : wfp.

(* import_list needs the well-formedness of the imported template's export table *)
Ltac wfp_known ::=
  first [ match goal with H : _ |- _ => solve [eapply H; wfp_leaf] end
        | solve [eauto with wfp]
        | solve [eapply import_list_wf; wfp_leaf] ].

(* ------------------------------------------------------------------------------------ *)
(* The document parser and compilation: the 8 functions of the mutual fixpoint          *)
(* ------------------------------------------------------------------------------------ *)
Section Doc.
  Variable se : senv.

  Definition doc_wf_at (f : nat) : Prop :=
    (forall level st ts, wf_pst st ->
       okp (fun x => cwf_node (fst (fst x)) = true /\ wf_pst (snd x)) (parse_elem se f level st ts)) /\
    (forall level names st ts, wf_pst st ->
       okp (fun x => forallb cwf_node (fst (fst (fst (fst x)))) = true /\ wf_pst (snd x))
           (wrap_until se f level names st ts)) /\
    (forall level st ts, wf_pst st ->
       okp (fun x => cwf_node (fst (fst x)) = true /\ wf_pst (snd x)) (parse_tag se f level st ts)) /\
    (forall level impl args st ts, wf_pst st ->
       okp (fun x => cwf_node (fst (fst x)) = true /\ wf_pst (snd x))
           (tag_parser se f level impl args st ts)) /\
    (forall level conds wrappers st ts,
       forallb wf_expr conds = true -> forallb (forallb cwf_node) wrappers = true ->
       (length conds <= S (length wrappers))%nat -> wf_pst st ->
       okp (fun x => forallb wf_expr (fst (fst (fst x))) = true /\
                     forallb (forallb cwf_node) (snd (fst (fst x))) = true /\
                     Nat.leb (length (fst (fst (fst x)))) (length (snd (fst (fst x)))) = true /\
                     wf_pst (snd x))
           (if_branches se f level conds wrappers st ts)) /\
    (forall st ts, wf_pst st ->
       okp (fun x => forallb cwf_node (fst x) = true /\ wf_pst (snd x)) (parse_doc se f st ts)) /\
    (forall name isstr src g, okp (fun x => cwf_template (fst x) = true) (compile_src se f name isstr src g)) /\
    (forall path g, okp (fun x => cwf_template (fst x) = true) (compile_file se f path g)).

  Ltac doc_unfold :=
    unfold parse_elem, wrap_until, parse_tag, tag_parser, if_branches, parse_doc,
           compile_src, compile_file;
    fold (parse_elem se) (wrap_until se) (parse_tag se) (tag_parser se) (if_branches se)
         (parse_doc se) (compile_src se) (compile_file se).

  Lemma doc_wf : forall f, doc_wf_at f.
  Proof.
    induction f as [|f IH].
    - unfold doc_wf_at. repeat split; intros; exact I.
    - destruct IH as (IHelem & IHwrap & IHtag & IHtp & IHif & IHdoc & IHsrc & IHfile).
      unfold doc_wf_at. repeat split; intros.
      + doc_unfold. wfp_tac.
      + doc_unfold. wfp_tac.
      + doc_unfold. wfp_tac.
      + doc_unfold. wfp_tac.
      + doc_unfold. wfp_tac.
      + doc_unfold. wfp_tac.
      + doc_unfold. wfp_tac.
      + doc_unfold. wfp_tac.
  Qed.
End Doc.

(* ------------------------------------------------------------------------------------ *)
(* The statements Props/C01c.v cites, in the form  "... = Ok x -> x is well-formed"      *)
(* ------------------------------------------------------------------------------------ *)

(* the argument parsers the tag parsers call *)
Lemma tag_args_wf : forall (cfg : pcfg) (fuel : nat) (ts : list token),
  (forall e rest, pexpr cfg ts = Ok (e, rest) -> wf_expr e = true) /\
  (forall e rest, pvarlit cfg ts = Ok (e, rest) -> wf_expr e = true) /\
  (forall es, pexprs cfg fuel ts = Ok es -> forallb wf_expr es = true) /\
  (forall ps, with_pairs_new cfg fuel ts = Ok ps -> wf_pairs ps = true) /\
  (forall ps, with_pairs_old cfg fuel ts = Ok ps -> wf_pairs ps = true) /\
  (forall ps only rest, include_pairs cfg fuel ts = Ok (ps, only, rest) -> wf_pairs ps = true) /\
  (forall ps rest, macro_params cfg fuel ts = Ok (ps, rest) -> wf_oparams ps = true) /\
  (forall ps rest, filter_tag_chain cfg fuel ts = Ok (ps, rest) -> wf_oparams ps = true) /\
  (forall es name silent rest, cycle_args cfg fuel ts = Ok (es, name, silent, rest) ->
                               forallb wf_expr es = true) /\
  (forall exported ms, forallb (fun m => cwf_macro (snd m)) exported = true ->
                       import_list fuel exported ts = Ok ms ->
                       forallb (fun am => cwf_macro (snd am)) ms = true).
Proof.
  intros cfg fuel ts. repeat split.
  - intros e rest E. exact (okp_ok _ _ _ _ (pexpr_wf cfg ts) E).
  - intros e rest E. exact (okp_ok _ _ _ _ (pvarlit_wf cfg ts) E).
  - intros es E. exact (okp_ok _ _ _ _ (pexprs_wf cfg fuel ts) E).
  - intros ps E. exact (okp_ok _ _ _ _ (with_pairs_new_wf cfg fuel ts) E).
  - intros ps E. exact (okp_ok _ _ _ _ (with_pairs_old_wf cfg fuel ts) E).
  - intros ps only rest E. exact (okp_ok _ _ _ _ (include_pairs_wf cfg fuel ts) E).
  - intros ps rest E. exact (okp_ok _ _ _ _ (macro_params_wf cfg fuel ts) E).
  - intros ps rest E. exact (okp_ok _ _ _ _ (filter_tag_chain_wf cfg fuel ts) E).
  - intros es name silent rest E. exact (okp_ok _ _ _ _ (cycle_args_wf cfg fuel ts) E).
  - intros exported ms W E. exact (okp_ok _ _ _ _ (import_list_wf fuel exported ts W) E).
Qed.

(* the 6 parsing functions of the document parser's mutual fixpoint *)
Lemma doc_parsers_wf : forall (se : senv) (fuel : nat),
  (forall level st ts n r st', wf_pst st ->
     parse_elem se fuel level st ts = Ok (n, r, st') -> cwf_node n = true /\ wf_pst st') /\
  (forall level names st ts ns name args r st', wf_pst st ->
     wrap_until se fuel level names st ts = Ok (ns, name, args, r, st') ->
     forallb cwf_node ns = true /\ wf_pst st') /\
  (forall level st ts n r st', wf_pst st ->
     parse_tag se fuel level st ts = Ok (n, r, st') -> cwf_node n = true /\ wf_pst st') /\
  (forall level impl args st ts n r st', wf_pst st ->
     tag_parser se fuel level impl args st ts = Ok (n, r, st') -> cwf_node n = true /\ wf_pst st') /\
  (forall level conds wrappers st ts conds' wrappers' r st',
     forallb wf_expr conds = true -> forallb (forallb cwf_node) wrappers = true ->
     (length conds <= S (length wrappers))%nat -> wf_pst st ->
     if_branches se fuel level conds wrappers st ts = Ok (conds', wrappers', r, st') ->
     forallb wf_expr conds' = true /\ forallb (forallb cwf_node) wrappers' = true /\
     (length conds' <= length wrappers')%nat /\ wf_pst st') /\
  (forall st ts ns st', wf_pst st ->
     parse_doc se fuel st ts = Ok (ns, st') -> forallb cwf_node ns = true /\ wf_pst st').
Proof.
  intros se fuel.
  destruct (doc_wf se fuel) as (H1 & H2 & H3 & H4 & H5 & H6 & _ & _).
  repeat match goal with |- _ /\ _ => split end.
  all: intros.
  all: match goal with
       | E : parse_elem _ _ _ _ _ = Ok _, W : wf_pst _ |- _ => pose proof (okp_ok _ _ _ _ (H1 _ _ _ W) E) as P
       | E : wrap_until _ _ _ _ _ _ = Ok _, W : wf_pst _ |- _ => pose proof (okp_ok _ _ _ _ (H2 _ _ _ _ W) E) as P
       | E : parse_tag _ _ _ _ _ = Ok _, W : wf_pst _ |- _ => pose proof (okp_ok _ _ _ _ (H3 _ _ _ W) E) as P
       | E : tag_parser _ _ _ _ _ _ _ = Ok _, W : wf_pst _ |- _ => pose proof (okp_ok _ _ _ _ (H4 _ _ _ _ _ W) E) as P
       | E : if_branches _ _ _ ?c ?w ?st _ = Ok _, W : wf_pst ?st, A : forallb wf_expr ?c = true,
         B : forallb _ ?w = true, L : (_ <= _)%nat |- _ =>
           pose proof (okp_ok _ _ _ _ (H5 _ _ _ _ _ A B L W) E) as P
       | E : parse_doc _ _ _ _ = Ok _, W : wf_pst _ |- _ => pose proof (okp_ok _ _ _ _ (H6 _ _ W) E) as P
       end.
  all: cbn [fst snd] in P; try exact P.
  destruct P as (P1 & P2 & P3 & P4). refine (conj P1 (conj P2 (conj _ P4))).
  apply Nat.leb_le. exact P3.
Qed.

(* compilation of a source (FromString / newTemplate) and of a file (FromFile) *)
Lemma compile_src_cwf : forall se f name isstr src g t g',
  compile_src se f name isstr src g = Ok (t, g') -> cwf_template t = true.
Proof.
  intros se f name isstr src g t g' E.
  destruct (doc_wf se f) as (_ & _ & _ & _ & _ & _ & H7 & _).
  exact (okp_ok _ _ _ _ (H7 name isstr src g) E).
Qed.

Lemma compiler_cwf_holds : forall se : senv, compiler_cwf se.
Proof.
  intros se f name g t g' E.
  destruct (doc_wf se f) as (_ & _ & _ & _ & _ & _ & _ & H8).
  exact (okp_ok _ _ _ _ (H8 name g) E).
Qed.

(* the state a template's parse starts in *)
Lemma initial_pst_wf : forall id name isstr g, wf_pst (mkT id name isstr [] [] None, g).
Proof. intros. repeat split. Qed.

(* ------------------------------------------------------------------------------------ *)
(* Spec/SpecWf.v's well-formedness implies the one the compiler guarantees               *)
(* ------------------------------------------------------------------------------------ *)
(* every boolean conjunction among the hypotheses, split *)
Ltac split_ands :=
  repeat match goal with H : _ && _ = true |- _ => apply andb_prop in H; destruct H end.

(* lists / optional lists of nodes, under the recursive call [rec] *)
Ltac nodes_ind rec l H :=
  let a := fresh "a" in let IHl := fresh "IHl" in let Ha := fresh "Ha" in let Hl := fresh "Hl" in
  induction l as [|a l IHl]; [reflexivity|]; cbn [forallb] in *;
  apply andb_prop in H; destruct H as [Ha Hl]; rewrite (rec a Ha), (IHl Hl); reflexivity.
Ltac lift_nodes rec :=
  repeat match goal with
  | H : forallb wf_node ?body = true |- _ =>
      let G := fresh "G" in
      assert (G : forallb cwf_node body = true); [ clear - H rec; nodes_ind rec body H | clear H ]
  | H : opt_all (forallb wf_node) ?ob = true |- _ =>
      let G := fresh "G" in let b := fresh "b" in
      assert (G : opt_all (forallb cwf_node) ob = true);
      [ clear - H rec; destruct ob as [b|]; [|reflexivity]; cbn [opt_all] in *; nodes_ind rec b H
      | clear H ]
  end.

Ltac finish :=
  cbn [andb];
  repeat match goal with H : ?x = true |- _ =>
           lazymatch x with true => fail | _ => idtac end; progress (rewrite H) end;
  reflexivity.

Fixpoint wf_node_cwf (n : node) {struct n} : wf_node n = true -> cwf_node n = true
with wf_macro_cwf (m : macro) {struct m} : wf_macro m = true -> cwf_macro m = true
with wf_template_cwf (t : template) {struct t} : wf_template t = true -> cwf_template t = true.
Proof.
  - (* nodes *)
    destruct n; cbn [wf_node cwf_node]; intro H; try exact H; try reflexivity.
    + (* NIf *)
      split_ands.
      assert (G : forallb (forallb cwf_node) wrappers = true).
      { match goal with H2 : forallb (forallb wf_node) wrappers = true |- _ =>
          clear - H2 wf_node_cwf; induction wrappers as [|w ws IHws]; [reflexivity|];
          cbn [forallb] in *; apply andb_prop in H2; destruct H2 as [Hw Hws];
          rewrite (IHws Hws), andb_true_r; clear IHws Hws;
          induction w as [|a w IHw]; [reflexivity|]; cbn [forallb] in *;
          apply andb_prop in Hw; destruct Hw as [Ha Hw]; rewrite (wf_node_cwf a Ha), (IHw Hw); reflexivity
        end. }
      assert (L : Nat.leb (length conds) (length wrappers) = true).
      { apply Nat.leb_le.
        match goal with H3 : _ || _ = true |- _ =>
          apply orb_prop in H3; destruct H3 as [E|E]; apply Nat.eqb_eq in E; lia end. }
      finish.
    + (* NFor *) split_ands. lift_nodes wf_node_cwf. finish.
    + (* NWith *) split_ands. lift_nodes wf_node_cwf. finish.
    + (* NMacro *) exact (wf_macro_cwf m H).
    + (* NImport *)
      induction ms as [|[k m] ms IHms]; [reflexivity|]. cbn [forallb snd] in *.
      apply andb_prop in H. destruct H as [Hm Hms]. rewrite (wf_macro_cwf m Hm), (IHms Hms). reflexivity.
    + (* NInclude *)
      split_ands.
      assert (G : opt_all cwf_template tpl = true).
      { destruct tpl as [t|]; [|reflexivity]. cbn [opt_all] in *. apply wf_template_cwf. assumption. }
      finish.
    + (* NAutoescape *) lift_nodes wf_node_cwf. finish.
    + (* NFilterTag *) split_ands. lift_nodes wf_node_cwf. finish.
    + (* NIfchanged *) split_ands. lift_nodes wf_node_cwf. finish.
    + (* NIfequal *) split_ands. lift_nodes wf_node_cwf. finish.
    + (* NSpaceless *) lift_nodes wf_node_cwf. finish.
    + (* NSsi *)
      destruct tpl as [t|]; [|reflexivity]. cbn [opt_all] in *. apply wf_template_cwf. assumption.
  - (* macros *)
    destruct m; cbn [wf_macro cwf_macro]; intro H. split_ands. lift_nodes wf_node_cwf. finish.
  - (* templates *)
    destruct t; cbn [wf_template cwf_template]; intro H. split_ands. lift_nodes wf_node_cwf.
    assert (Gb : forallb (fun b => forallb cwf_node (snd b)) blocks = true).
    { match goal with Hb : forallb _ blocks = true |- _ =>
        clear - Hb wf_node_cwf; induction blocks as [|[k w] bs IHbs]; [reflexivity|];
        cbn [forallb snd] in *; apply andb_prop in Hb; destruct Hb as [Hw Hbs];
        rewrite (IHbs Hbs), andb_true_r; clear IHbs Hbs;
        induction w as [|a w IHw]; [reflexivity|]; cbn [forallb] in *;
        apply andb_prop in Hw; destruct Hw as [Ha Hw]; rewrite (wf_node_cwf a Ha), (IHw Hw); reflexivity
      end. }
    assert (Ge : forallb (fun m => cwf_macro (snd m)) exported = true).
    { match goal with He : forallb _ exported = true |- _ =>
        clear - He wf_macro_cwf; induction exported as [|[k m] ms IHms]; [reflexivity|];
        cbn [forallb snd] in *; apply andb_prop in He; destruct He as [Hm Hms];
        rewrite (wf_macro_cwf m Hm), (IHms Hms); reflexivity
      end. }
    assert (Gp : opt_all cwf_template parent = true).
    { destruct parent as [p|]; [|reflexivity]. cbn [opt_all] in *. apply wf_template_cwf. assumption. }
    finish.
Qed.

(* ------------------------------------------------------------------------------------ *)
(* ... and it is strictly stronger: the compiler does NOT guarantee it                   *)
(* ------------------------------------------------------------------------------------ *)
Lemma cx_compiled_not_wf :
  match compile_file (world_senv cx_world) 100 cx_name g0 with
  | Ok (t, _) => (wf_template t, cwf_template t, tpl_root t)
  | _ => (true, false, [])
  end = (false, true,
         [NIf [EFilt (EVar [PIdent [97] None]) []]
              [[NHtml 1 [120] false false true true];
               [NHtml 1 [121] false false true true];
               [NHtml 1 [122] false false true true]]]).
Proof. vm_compute. reflexivity. Qed.

Lemma compiler_wf_is_false : ~ compiler_wf (world_senv cx_world).
Proof.
  intro H. pose proof cx_compiled_not_wf as C.
  destruct (compile_file (world_senv cx_world) 100 cx_name g0) as [[t g']|k| | |s] eqn:E;
    try discriminate C.
  specialize (H _ _ _ _ _ E). rewrite H in C. discriminate C.
Qed.

Print Assumptions parse_expr_wf.
Print Assumptions tag_args_wf.
Print Assumptions doc_parsers_wf.
Print Assumptions compile_src_cwf.
Print Assumptions compiler_cwf_holds.
Print Assumptions wf_template_cwf.
Print Assumptions compiler_wf_is_false.
