(* Model/Exec.v's [walk]/[resolve] against the reference of Spec/SpecWalk.v (property C08). *)
From PV Require Import Model.Exec Spec.SpecWalk.
From Coq Require Import Lia.
Open Scope N_scope.

Definition part_of (s : step) : part :=
  match s with SKey k => PIdent k None | SIdx i => PInt i None end.

Section W.
  Variable se : senv.
  Variable globals : list (str * cval).

  Lemma walk_nil : forall f st cur safe, walk se globals (S f) st cur safe [] = Ok (mkV cur safe, st).
  Proof. reflexivity. Qed.

  Lemma walk_key : forall f st cur safe k rest,
    walk se globals (S f) st cur safe (PIdent k None :: rest) =
    match cur with
    | VStruct m | VMap m =>
        match assoc_get k m with
        | Some VNil | None => Ok (as_value VNil, st)
        | Some v => walk se globals f st v safe rest
        end
    | _ => Err 3
    end.
  Proof. intros; destruct cur; reflexivity. Qed.

  Lemma walk_idx : forall f st cur safe i rest,
    walk se globals (S f) st cur safe (PInt i None :: rest) =
    if indexable cur then
      match index_val cur i with
      | Some VNil | None => Ok (as_value VNil, st)
      | Some v => walk se globals f st v safe rest
      end
    else Err 3.
  Proof.
    intros. change (walk se globals (S f) st cur safe (PInt i None :: rest)) with
      (if indexable cur then
         match index_val cur i with
         | Some v => match v with
                     | VNil => Ok (as_value VNil, st)
                     | _ => walk se globals f st v safe rest
                     end
         | None => Ok (as_value VNil, st)
         end
       else @xerr (value * mstate)).
    destruct (indexable cur); [|reflexivity].
    destruct (index_val cur i) as [v|]; [destruct v|]; reflexivity.
  Qed.

  Lemma nth_error_nth_default : forall {A} (l : list A) n d, (n < length l)%nat -> nth_error l n = Some (nth n l d).
  Proof. intros A l; induction l as [|x l IH]; intros n d H; simpl in *; [lia|]. destruct n; [reflexivity|]. apply IH; lia. Qed.

  Lemma index_val_spec : forall cur i,
    indexable cur = true -> nth_of cur i = Some (index_val cur i).
  Proof.
    intros cur i H; destruct cur; try discriminate H; simpl.
    - destruct ((0 <=? i) && (i <? Z.of_nat (length s)))%Z eqn:E; [|reflexivity].
      rewrite (nth_error_nth_default s (Z.to_nat i) 0) by lia. reflexivity.
    - destruct ((0 <=? i) && (i <? Z.of_nat (length l)))%Z eqn:E; [|reflexivity].
      rewrite (nth_error_nth_default l (Z.to_nat i) VNil) by lia. reflexivity.
  Qed.

  Lemma not_indexable_spec : forall cur i, indexable cur = false -> nth_of cur i = None.
  Proof. intros cur i H; destruct cur; try reflexivity; discriminate H. Qed.

  (* following static steps through data is exactly the reference, for paths of any length *)
  Lemma walk_follows : forall steps f st cur safe,
    (length steps < f)%nat ->
    walk se globals f st cur safe (map part_of steps) =
    match follow cur steps with
    | FVal v => Ok (mkV v safe, st)
    | FEmpty => Ok (as_value VNil, st)
    | FError => Err 3
    end.
  Proof.
    induction steps as [|s steps IH]; intros f st cur safe Hf.
    - destruct f; [simpl in Hf; lia|]. reflexivity.
    - destruct f; [simpl in Hf; lia|]. simpl in Hf.
      destruct s as [k|i]; cbn [map part_of follow].
      + rewrite walk_key. destruct cur; try reflexivity; cbn [keyed].
        * destruct (assoc_get k m) as [v|]; [|reflexivity]. destruct v; try reflexivity; apply IH; lia.
        * destruct (assoc_get k m) as [v|]; [|reflexivity]. destruct v; try reflexivity; apply IH; lia.
      + rewrite walk_idx. destruct (indexable cur) eqn:E.
        * rewrite (index_val_spec _ _ E). destruct (index_val cur i) as [v|]; [|reflexivity].
          destruct v; try reflexivity; apply IH; lia.
        * rewrite (not_indexable_spec _ _ E). reflexivity.
  Qed.

  (* the first step: a name set by a tag (private context) shadows the caller's key (public
     context, which already has the caller's keys over the set's globals) *)
  Lemma resolve_lookup : forall f st fr name steps,
    top_frame st = Ok fr ->
    resolve se globals (S f) st (PIdent name None :: map part_of steps) =
    match (match ctx_get name (f_priv fr) with Some c => Some c | None => ctx_get name (f_pub fr) end) with
    | None => Ok (as_value VNil, st)
    | Some (CV v) => match vv v with
                     | VNil => Ok (as_value VNil, st)
                     | _ => walk se globals f st (vv v) (vsafe v) (map part_of steps)
                     end
    | Some (CMacro m fidx) =>
        bind (eval_list se globals f st []) (fun '(args, st1) =>
        bind (call_macro se globals f st1 m fidx args) (fun '(r, st2) =>
        walk se globals f st2 (vv r) (vsafe r) (map part_of steps)))
    | Some (CBlock fidx wrappers) =>
        match map part_of steps with
        | [PIdent meth mcall] =>
            if str_eqb meth [83; 117; 112; 101; 114] then
              match mcall with Some (_ :: _) => Err 3 | _ => call_super se globals f st fidx wrappers end
            else Unmod
        | _ => Unmod
        end
    | Some (CCycle _ _ _ _) => Unmod
    end.
  Proof.
    intros f st fr name steps Ht.
    change (resolve se globals (S f) st (PIdent name None :: map part_of steps)) with
      (bind (top_frame st) (fun fr =>
        let entry := match ctx_get name (f_priv fr) with Some c => Some c | None => ctx_get name (f_pub fr) end in
        match entry with
        | None => Ok (as_value VNil, st)
        | Some (CV v) => match vv v with
                         | VNil => Ok (as_value VNil, st)
                         | _ => walk se globals f st (vv v) (vsafe v) (map part_of steps)
                         end
        | Some (CMacro m fidx) =>
            bind (eval_list se globals f st []) (fun '(args, st1) =>
            bind (call_macro se globals f st1 m fidx args) (fun '(r, st2) =>
            walk se globals f st2 (vv r) (vsafe r) (map part_of steps)))
        | Some (CBlock fidx wrappers) =>
            match map part_of steps with
            | [PIdent meth mcall] =>
                if str_eqb meth [83; 117; 112; 101; 114] then
                  match mcall with Some (_ :: _) => Err 3 | _ => call_super se globals f st fidx wrappers end
                else Unmod
            | _ => Unmod
            end
        | Some (CCycle _ _ _ _) => Unmod
        end)).
    rewrite Ht. reflexivity.
  Qed.

  (* a data name: found privately, or else publicly; then followed by the reference *)
  Lemma resolve_data : forall f st fr name v steps,
    top_frame st = Ok fr ->
    (match ctx_get name (f_priv fr) with Some c => Some c | None => ctx_get name (f_pub fr) end) = Some (CV v) ->
    (length steps < f)%nat ->
    resolve se globals (S f) st (PIdent name None :: map part_of steps) =
    match follow (vv v) steps with
    | FVal x => match vv v with VNil => Ok (as_value VNil, st) | _ => Ok (mkV x (vsafe v), st) end
    | FEmpty => Ok (as_value VNil, st)
    | FError => match vv v with VNil => Ok (as_value VNil, st) | _ => Err 3 end
    end.
  Proof.
    intros f st fr name v steps Ht He Hf. rewrite (resolve_lookup _ _ _ _ _ Ht), He.
    rewrite walk_follows by exact Hf.
    destruct (vv v) eqn:Ev; try reflexivity.
    destruct steps as [|[k|i] steps]; reflexivity.
  Qed.

  Lemma resolve_unknown : forall f st fr name steps,
    top_frame st = Ok fr ->
    ctx_get name (f_priv fr) = None -> ctx_get name (f_pub fr) = None ->
    resolve se globals (S f) st (PIdent name None :: map part_of steps) = Ok (as_value VNil, st).
  Proof. intros f st fr name steps Ht H1 H2. rewrite (resolve_lookup _ _ _ _ _ Ht), H1, H2. reflexivity. Qed.
End W.

(* the public context of an execution: the caller's keys over the set's globals *)
Lemma w_str_eqb_refl : forall a : str, str_eqb a a = true.
Proof. induction a as [|x a IH]; simpl; [reflexivity|]. rewrite N.eqb_refl. exact IH. Qed.

Lemma w_str_eqb_true : forall a b : str, str_eqb a b = true -> a = b.
Proof.
  induction a as [|x a IH]; destruct b as [|y b]; simpl; intro H; try discriminate H; [reflexivity|].
  apply andb_prop in H. destruct H as [H1 H2]. apply N.eqb_eq in H1. rewrite (IH _ H2), H1. reflexivity.
Qed.

Lemma ctx_get_del_other : forall k k' m, str_eqb k k' = false -> ctx_get k (ctx_del k' m) = ctx_get k m.
Proof.
  intros k k' m H; induction m as [|[k2 v] m IH]; simpl; [reflexivity|].
  destruct (str_eqb k' k2) eqn:E.
  - apply w_str_eqb_true in E; subst k2. rewrite H. exact IH.
  - simpl. rewrite IH. reflexivity.
Qed.

Lemma ctx_get_set : forall k k' v m,
  ctx_get k (ctx_set k' v m) = if str_eqb k k' then Some v else ctx_get k m.
Proof.
  intros; unfold ctx_set; simpl. destruct (str_eqb k k') eqn:E; [reflexivity|].
  apply ctx_get_del_other; exact E.
Qed.

(* Context.Update: a key of the source wins (the last one, if the source repeats a key - a Go map
   never does), any other key keeps the destination's entry *)
Lemma ctx_get_update : forall src dst k,
  ctx_get k (ctx_update dst src) =
  match ctx_get k (rev src) with Some v => Some v | None => ctx_get k dst end.
Proof.
  unfold ctx_update. induction src as [|[k1 v1] src IH]; intros dst k; simpl; [reflexivity|].
  rewrite IH. clear IH. rewrite ctx_get_set.
  assert (Happ : forall a b, ctx_get k (a ++ b) = match ctx_get k a with Some v => Some v | None => ctx_get k b end).
  { induction a as [|[k2 v2] a IHa]; intros b; simpl; [reflexivity|]. destruct (str_eqb k k2); [reflexivity|apply IHa]. }
  rewrite Happ. destruct (ctx_get k (rev src)); [reflexivity|]. simpl.
  destruct (str_eqb k k1); reflexivity.
Qed.
