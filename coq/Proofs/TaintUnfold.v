(* One-step unfolding equations of the mutual fixpoint of Model/Exec.v (fuel [S f]), proved by
   conversion.  GENERATED from Model/Exec.v by a script: the right-hand sides are the bodies
   of the functions with every recursive call written with its section arguments. *)
From PV Require Import Model.Exec.
From PV Require Import gen.Tables.
Open Scope N_scope.

Section Unfold.
  Variable se : senv.
  Variable globals : list (str * cval).

  Lemma eval_S : forall (f : nat) (st : mstate) (e : expr),
    eval se globals (S f) st e =
        match e with
        | EInt z => Ok (as_value (VInt z), st)
        | EFloat x => Ok (as_value (VFloat x), st)
        | EStr s => Ok (as_value (VStr s), st)
        | EBool b => Ok (as_value (VBool b), st)
        | EArray items =>
            do '(vs, st1) <- eval_list se globals f st items;
            Ok (as_value (VList (map vv vs)), st1)
        | EVar parts => resolve se globals f st parts
        | EFilt e0 chain =>
            do '(v, st1) <- eval se globals f st e0;
            apply_chain se globals f st1 v chain
        | EPow a b =>
            do '(x, st1) <- eval se globals f st a;
            do '(y, st2) <- eval se globals f st1 b;
            do fx <- float_of x; do fy <- float_of y;
            do r <- of_opt (f_pow fx fy);
            Ok (as_value (VFloat r), st2)
        | ETerm op a b =>
            do '(x, st1) <- eval se globals f st a;
            do '(y, st2) <- eval se globals f st1 b;
            let fl := is_float (vv x) || is_float (vv y) in
            if op =? 42 then
              if fl then do fx <- float_of x; do fy <- float_of y; Ok (as_value (VFloat (f_mul fx fy)), st2)
              else do ix <- int_of x; do iy <- int_of y; Ok (as_value (VInt (wrap64 (ix * iy))), st2)
            else if op =? 47 then
              if fl then
                do fy <- float_of y;
                if f_is_zero fy then xerr
                else do fx <- float_of x; Ok (as_value (VFloat (f_div fx fy)), st2)
              else
                do iy <- int_of y;
                if (iy =? 0)%Z then xerr
                else do ix <- int_of x; Ok (as_value (VInt (wrap64 (Z.quot ix iy))), st2)
            else
              do iy <- int_of y;
              if (iy =? 0)%Z then xerr
              else do ix <- int_of x; Ok (as_value (VInt (Z.rem ix iy)), st2)
        | ESimple negsign neg a rest =>
            do '(t1, st1) <- eval se globals f st a;
            let r1 := if neg then as_value (negate (vv t1)) else t1 in
            do r2 <-
              (if negsign then
                 if is_number (vv r1) then
                   if is_float (vv r1) then do x <- float_of r1; Ok (as_value (VFloat (f_neg x)))
                   else do i <- int_of r1; Ok (as_value (VInt (wrap64 (- i))))
                 else xerr
               else Ok r1);
            match rest with
            | None => Ok (r2, st1)
            | Some (op, b) =>
                do '(t2, st2) <- eval se globals f st1 b;
                if op =? 43 then
                  if is_string (vv r2) || is_string (vv t2) then
                    do s1 <- str_of r2; do s2 <- str_of t2; Ok (as_value (VStr (s1 ++ s2)), st2)
                  else if is_float (vv r2) || is_float (vv t2) then
                    do x <- float_of r2; do y <- float_of t2; Ok (as_value (VFloat (f_add x y)), st2)
                  else do x <- int_of r2; do y <- int_of t2; Ok (as_value (VInt (wrap64 (x + y))), st2)
                else
                  if is_float (vv r2) || is_float (vv t2) then
                    do x <- float_of r2; do y <- float_of t2; Ok (as_value (VFloat (f_sub x y)), st2)
                  else do x <- int_of r2; do y <- int_of t2; Ok (as_value (VInt (wrap64 (x - y))), st2)
            end
        | ERel op a b =>
            do '(x, st1) <- eval se globals f st a;
            do '(y, st2) <- eval se globals f st1 b;
            let fl := is_float (vv x) || is_float (vv y) in
            let cmp (fi : Z -> Z -> bool) (ff : float -> float -> bool) : res (value * mstate) :=
              if fl then do fx <- float_of x; do fy <- float_of y; Ok (as_value (VBool (ff fx fy)), st2)
              else do ix <- int_of x; do iy <- int_of y; Ok (as_value (VBool (fi ix iy)), st2) in
            match op with
            | RLe => cmp Z.leb f_leb
            | RGe => cmp (fun p q => Z.leb q p) (fun p q => f_leb q p)
            | RGt => cmp (fun p q => Z.ltb q p) (fun p q => f_ltb q p)
            | RLt => cmp Z.ltb f_ltb
            | REq => do b <- of_opt (equal_value_to (vv x) (vv y)); Ok (as_value (VBool b), st2)
            | RNe => do b <- of_opt (equal_value_to (vv x) (vv y)); Ok (as_value (VBool (negb b)), st2)
            | RIn => do b <- of_opt (val_contains (vv y) (vv x)); Ok (as_value (VBool b), st2)
            end
        | ELogic is_and a b =>
            do '(x, st1) <- eval se globals f st a;
            if is_and then
              if negb (is_true (vv x)) then Ok (as_value (VBool false), st1)
              else do '(y, st2) <- eval se globals f st1 b; Ok (as_value (VBool (is_true (vv y))), st2)
            else
              if is_true (vv x) then Ok (as_value (VBool true), st1)
              else do '(y, st2) <- eval se globals f st1 b; Ok (as_value (VBool (is_true (vv y))), st2)
        end.
  Proof. reflexivity. Qed.

  Lemma eval_list_S : forall (f : nat) (st : mstate) (es : list expr),
    eval_list se globals (S f) st es =
        match es with
        | [] => Ok ([], st)
        | e :: r => do '(v, st1) <- eval se globals f st e; do '(vs, st2) <- eval_list se globals f st1 r; Ok (v :: vs, st2)
        end.
  Proof. reflexivity. Qed.

  Lemma apply_chain_S : forall (f : nat) (st : mstate) (v : value) (chain : list fcall),
    apply_chain se globals (S f) st v chain =
        match chain with
        | [] => Ok (v, st)
        | FCall name param :: rest =>
            do '(p, st1) <- (match param with
                             | Some pe => eval se globals f st pe
                             | None => Ok (as_value VNil, st)
                             end);
            do r <- apply_filter_se se name v p;
            apply_chain se globals f st1 r rest
        end.
  Proof. reflexivity. Qed.

  Lemma resolve_S : forall (f : nat) (st : mstate) (parts : list part),
    resolve se globals (S f) st parts =
        match parts with
        | PIdent name call :: rest =>
            do fr <- top_frame st;
            let entry := match ctx_get name (f_priv fr) with
                         | Some c => Some c
                         | None => ctx_get name (f_pub fr)
                         end in
            match entry with
            | None => Ok (as_value VNil, st)          (* reflect.ValueOf(nil): invalid *)
            | Some (CV v) =>
                match vv v with
                | VNil => Ok (as_value VNil, st)
                | _ =>
                    match call with
                    | Some _ => xerr                   (* not a function *)
                    | None => walk se globals f st (vv v) (vsafe v) rest
                    end
                end
            | Some (CMacro m fidx) =>
                do '(args, st1) <- eval_list se globals f st (match call with Some a => a | None => [] end);
                do '(r, st2) <- call_macro se globals f st1 m fidx args;
                walk se globals f st2 (vv r) (vsafe r) rest
            | Some (CBlock fidx wrappers) =>
                (* only block.Super is modelled *)
                match rest with
                | [PIdent meth mcall] =>
                    if str_eqb meth [83; 117; 112; 101; 114] (* Super *) then
                      match mcall with
                      | Some (_ :: _) => xerr
                      | _ => call_super se globals f st fidx wrappers
                      end
                    else Unmod
                | _ => Unmod
                end
            | Some (CCycle _ _ _ _) => Unmod
            end
        | _ => Panic 92     (* the parser always starts a variable with an identifier *)
        end.
  Proof. reflexivity. Qed.

  Lemma walk_S : forall (f : nat) (st : mstate) (cur : val) (safe : bool) (parts : list part),
    walk se globals (S f) st cur safe parts =
        match parts with
        | [] => Ok (mkV cur safe, st)
        | p :: rest =>
            let no_call (c : option (list expr)) (k : res (value * mstate)) : res (value * mstate) :=
              match c with Some _ => (match k with Ok _ => xerr | other => other end) | None => k end in
            match p with
            | PInt i call =>
                if indexable cur then
                  match index_val cur i with
                  | Some v => match v with
                              | VNil => Ok (as_value VNil, st)
                              | _ => match call with Some _ => xerr | None => walk se globals f st v safe rest end
                              end
                  | None => Ok (as_value VNil, st)
                  end
                else xerr
            | PIdent name call =>
                match cur with
                | VStruct m | VMap m =>
                    match assoc_get name m with
                    | Some VNil | None => Ok (as_value VNil, st)
                    | Some v => match call with Some _ => xerr | None => walk se globals f st v safe rest end
                    end
                | _ => xerr
                end
            | PSub e call =>
                match cur with
                | VStr _ | VList _ =>
                    do '(sv, st1) <- eval se globals f st e;
                    match vv sv with
                    | VInt si =>      (* only an integer is an index (fix D38) *)
                        match index_val cur si with
                        | Some VNil | None => Ok (as_value VNil, st1)
                        | Some v => match call with Some _ => xerr | None => walk se globals f st1 v safe rest end
                        end
                    | _ => Ok (as_value VNil, st1)
                    end
                | VStruct m =>
                    do '(sv, st1) <- eval se globals f st e;
                    do k <- str_of sv;
                    match assoc_get k m with
                    | Some VNil | None => Ok (as_value VNil, st1)
                    | Some v => match call with Some _ => xerr | None => walk se globals f st1 v safe rest end
                    end
                | VMap m =>
                    do '(sv, st1) <- eval se globals f st e;
                    match vv sv with
                    | VStr k =>
                        match assoc_get k m with
                        | Some VNil | None => Ok (as_value VNil, st1)
                        | Some v => match call with Some _ => xerr | None => walk se globals f st1 v safe rest end
                        end
                    | _ => Ok (as_value VNil, st1)     (* nil, or a key type that is not string *)
                    end
                | _ => xerr
                end
            end
        end.
  Proof. reflexivity. Qed.

  Lemma call_macro_S : forall (f : nat) (st : mstate) (m : macro) (fidx : nat) (args : list value),
    call_macro se globals (S f) st m fidx args =
        match m with
        | Macro mname params body _ =>
            match frame_at st fidx with
            | None => Panic 93
            | Some dfr =>
                let d := (f_depth dfr + 1)%Z in
                if (max_macro_depth <? d)%Z then xerr
                else
                  let st0 := set_frame_at st fidx (with_depth dfr d) in
                  (* all defaults are evaluated in the defining context: view the stack up to that frame *)
                  let all := ms_frames st0 in
                  let nup := (length all - S fidx)%nat in
                  let st_in := mkM (skipn nup all) (ms_nodes st0) (ms_g st0) in
                  match macro_defaults se globals f st_in params with
                  | Ok (dvals, st_d) =>
                      let st1 := mkM (firstn nup all ++ ms_frames st_d) (ms_nodes st_d) (ms_g st_d) in
                      if Nat.ltb (length params) (length args) then xerr
                      else
                        match frame_at st1 fidx with
                        | None => Panic 94
                        | Some dfr1 =>
                            let base := ctx_update (f_priv dfr1) dvals in
                            let bound := ctx_update base
                                           (map (fun pa => (fst (fst pa), CV (as_value (vv (snd pa)))))
                                                (combine params args)) in
                            let mfr := with_priv (child_of dfr1) bound in
                            match exec_nodes se globals f (push_frame st1 mfr) body with
                            | (out, Ok st2) =>
                                let st3 := pop_frame st2 in
                                let st4 := match frame_at st3 fidx with
                                           | Some fr' => set_frame_at st3 fidx (with_depth fr' (f_depth fr' - 1))
                                           | None => st3
                                           end in
                                Ok (as_safe_value (VStr out), st4)
                            | (_, Err k) => Err 3
                            | (_, Unmod) => Unmod
                            | (_, Fuel) => Fuel
                            | (_, Panic s) => Panic s
                            end
                        end
                  | Err k => Err 3
                  | Unmod => Unmod
                  | Fuel => Fuel
                  | Panic s => Panic s
                  end
            end
        end.
  Proof. reflexivity. Qed.

  Lemma macro_defaults_S : forall (f : nat) (st : mstate) (params : list (str * option expr)),
    macro_defaults se globals (S f) st params =
        match params with
        | [] => Ok ([], st)
        | (name, None) :: rest =>
            do '(r, st1) <- macro_defaults se globals f st rest; Ok ((name, CV (as_value VNil)) :: r, st1)
        | (name, Some e) :: rest =>
            do '(v, st1) <- eval se globals f st e;
            do '(r, st2) <- macro_defaults se globals f st1 rest; Ok ((name, CV v) :: r, st2)
        end.
  Proof. reflexivity. Qed.

  Lemma call_super_S : forall (f : nat) (st : mstate) (fidx : nat) (wrappers : list (list node)),
    call_super se globals (S f) st fidx wrappers =
        match rev wrappers with
        | [] => Ok (as_safe_value (VStr []), st)
        | last :: before_rev =>
            match frame_at st fidx with
            | None => Panic 95
            | Some bfr =>
                let sfr := with_priv (child_of bfr) (ctx_set [98; 108; 111; 99; 107] (* block *) (CBlock fidx (rev before_rev)) (f_priv bfr)) in
                match exec_nodes se globals f (push_frame st sfr) last with
                | (out, Ok st1) => Ok (as_safe_value (VStr out), pop_frame st1)
                | (_, Err k) => Err 3
                | (_, Unmod) => Unmod
                | (_, Fuel) => Fuel
                | (_, Panic s) => Panic s
                end
            end
        end.
  Proof. reflexivity. Qed.

  Lemma exec_nodes_S : forall (f : nat) (st : mstate) (ns : list node),
    exec_nodes se globals (S f) st ns =
        match ns with
        | [] => xok [] st
        | n :: rest =>
            match exec_node se globals f st n with
            | (o1, Ok st1) => let '(o2, r) := exec_nodes se globals f st1 rest in (o1 ++ o2, r)
            | (o1, other) => (o1, other)
            end
        end.
  Proof. reflexivity. Qed.

  Lemma exec_node_S : forall (f : nat) (st : mstate) (n : node),
    exec_node se globals (S f) st n =
        let ev (e : expr) (k : value -> mstate -> xres) : xres :=
          match eval se globals f st e with
          | Ok (v, st1) => k v st1
          | other => xfail [] other
          end in
        match n with
        | NHtml owner val trimL trimR after before =>
            match top_frame st with
            | Ok fr =>
                (* the block options of the executed template rewrite its own tokens and those of
                   every template it extends (fix D42; before, only its own) *)
                let entry := last (f_chain fr) (Tpl 0 [] true [] [] [] None false false) in
                let mine := existsb (fun t => tpl_id t =? owner) (f_chain fr) in
                let v1 := if mine && tpl_lstrip entry && before
                          then rev (let fix dropws (l : str) := match l with
                                                                | b :: l' => if (b =? 9) || (b =? 32) then dropws l' else l
                                                                | [] => []
                                                                end in dropws (rev val))
                          else val in
                let v2 := if mine && tpl_trim entry && after
                          then match v1 with 10 :: r => r | _ => v1 end else v1 in
                let ws (b : N) := mem_byte b token_space_chars in
                let fix dropl (l : str) := match l with b :: l' => if ws b then dropl l' else l | [] => [] end in
                let v3 := if trimL then dropl v2 else v2 in
                let v4 := if trimR then rev (dropl (rev v3)) else v3 in
                xok v4 st
            | other => xfail [] other
            end
        | NVar e =>
            ev e (fun v st1 =>
              match top_frame st1 with
              | Ok fr =>
                  match to_string (vv v) with
                  | None => ([], Unmod)
                  | Some s =>
                      if negb (filter_applied [115; 97; 102; 101] (* safe *) e) && negb (vsafe v) && is_string (vv v) && f_auto fr
                      then xok (filter_escape s) st1 else xok s st1
                  end
              | other => xfail [] other
              end)
        | NIf conds wrappers => exec_if se globals f st conds wrappers 0
        | NFor key value obj reversed sorted body empty =>
            match top_frame st with
            | Ok fr =>
                let parent := match ctx_get [102; 111; 114; 108; 111; 111; 112] (* forloop *) (f_priv fr) with
                              | Some (CV v) => if is_loop_struct (vv v) then vv v else VNil
                              | _ => VNil
                              end in
                let ffr := with_priv (child_of fr) (ctx_set [102; 111; 114; 108; 111; 111; 112] (* forloop *) (CV (as_value (loop_struct_empty parent))) (f_priv fr)) in
                let st0 := push_frame st ffr in
                match eval se globals f st0 obj with
                | Ok (ov, st1) =>
                    match iter_items (vv ov) reversed sorted with
                    | Ok (Some ((_ :: _) as items)) =>
                        let '(o, r) := exec_for se globals f st1 key value parent body items 0 (Z.of_nat (length items)) in
                        (o, match r with Ok st2 => Ok (pop_frame st2) | other => other end)
                    | Ok _ =>
                        match empty with
                        | Some eb => let '(o, r) := exec_nodes se globals f st1 eb in
                                     (o, match r with Ok st2 => Ok (pop_frame st2) | other => other end)
                        | None => xok [] (pop_frame st1)
                        end
                    | other => xfail [] other
                    end
                | other => xfail [] other
                end
            | other => xfail [] other
            end
        | NWith pairs body =>
            match top_frame st with
            | Ok fr =>
                match eval_pairs se globals f st pairs with
                | Ok (vals, st1) =>
                    match top_frame st1 with
                    | Ok fr1 =>
                        let wfr := with_priv (child_of fr1) (ctx_update (f_priv fr1) vals) in
                        let '(o, r) := exec_nodes se globals f (push_frame st1 wfr) body in
                        (o, match r with Ok st2 => Ok (pop_frame st2) | other => other end)
                    | other => xfail [] other
                    end
                | other => xfail [] other
                end
            | other => xfail [] other
            end
        | NSet name e =>
            ev e (fun v st1 => match set_priv st1 name (CV v) with Ok st2 => xok [] st2 | other => xfail [] other end)
        | NMacro m =>
            match m with
            | Macro mname _ _ _ =>
                match set_priv st mname (CMacro m (cur_index st)) with Ok st1 => xok [] st1 | other => xfail [] other end
            end
        | NImport ms =>
            match top_frame st with
            | Ok fr =>
                let idx := cur_index st in
                xok [] (set_top st (with_priv fr (ctx_update (f_priv fr) (map (fun am => (fst am, CMacro (snd am) idx)) ms))))
            | other => xfail [] other
            end
        | NBlock bname =>
            match top_frame st with
            | Ok fr =>
                let ws := flat_map (fun t => match assoc_get bname (tpl_blocks t) with Some w => [w] | None => [] end) (f_chain fr) in
                match rev ws with
                | [] => ([], Err 3)
                | last :: before_rev =>
                    let outer := ctx_get [98; 108; 111; 99; 107] (* block *) (f_priv fr) in
                    match set_priv st [98; 108; 111; 99; 107] (* block *) (CBlock (cur_index st) (rev before_rev)) with
                    | Ok st1 =>
                        match exec_nodes se globals f st1 last with
                        | (o, Ok st2) =>
                            (* the enclosing block's "block" is back afterwards *)
                            match top_frame st2 with
                            | Ok fr2 =>
                                let p := match outer with
                                         | Some v => ctx_set [98; 108; 111; 99; 107] (* block *) v (f_priv fr2)
                                         | None => ctx_del [98; 108; 111; 99; 107] (* block *) (f_priv fr2)
                                         end in
                                xok o (set_top st2 (with_priv fr2 p))
                            | other => xfail o other
                            end
                        | other => other
                        end
                    | other => xfail [] other
                    end
                end
            | other => xfail [] other
            end
        | NExtends => xok [] st
        | NIncludeEmpty => xok [] st
        | NInclude tplo fname pairs only ifexists =>
            match top_frame st with
            | Ok fr =>
                let base := if only then [] else ctx_update (f_pub fr) (f_priv fr) in
                match eval_pairs se globals f st pairs with
                | Ok (vals, st1) =>
                    let ictx := ctx_update base vals in
                    match tplo with
                    | Some t => exec_template se globals f st1 t ictx
                    | None =>
                        match fname with
                        | None => ([], Panic 96)
                        | Some fe =>
                            match eval se globals f st1 fe with
                            | Ok (fv, st2) =>
                                match to_string (vv fv) with
                                | None => ([], Unmod)
                                | Some [] => ([], Err 3)
                                | Some fn =>
                                    let root := hd (Tpl 0 [] true [] [] [] None false false) (f_chain fr) in
                                    let iname := resolve_filename (tpl_is_string root) (tpl_name root) fn in
                                    match compile_file se f iname (ms_g st2) with
                                    | Ok (t, g') => exec_template se globals f (mkM (ms_frames st2) (ms_nodes st2) g') t ictx
                                    | Err 4 =>
                                        if ifexists && negb (served (se_loaders se) iname)
                                        then xok [] (mkM (ms_frames st2) (ms_nodes st2) (log_misses (se_loaders se) iname (ms_g st2)))
                                        else ([], Err 4)
                                    | other => xfail [] other
                                    end
                                end
                            | other => xfail [] other
                            end
                        end
                    end
                | other => xfail [] other
                end
            | other => xfail [] other
            end
        | NAutoescape on body =>
            match top_frame st with
            | Ok fr =>
                let old := f_auto fr in
                match exec_nodes se globals f (set_top st (with_auto fr on)) body with
                | (o, Ok st1) =>
                    match top_frame st1 with
                    | Ok fr1 => xok o (set_top st1 (with_auto fr1 old))
                    | other => xfail o other
                    end
                | other => other
                end
            | other => xfail [] other
            end
        | NFilterTag chain body =>
            match exec_nodes se globals f st body with
            | (o, Ok st1) =>
                match apply_tag_chain se globals f st1 (as_value (VStr o)) chain with
                | Ok (v, st2) => match to_string (vv v) with Some s => xok s st2 | None => ([], Unmod) end
                | Err _ => ([], Err 3)
                | other => xfail [] other
                end
            | (_, other) => ([], other)
            end
        | NFirstof args => exec_firstof se globals f st args
        | NCycle id args asname silent =>
            match top_frame st with
            | Ok fr =>
                let idx := match ns_get (f_exec fr) id (ms_nodes st) with Some (NSCycle i) => i | _ => 0%Z end in
                let item := nth (Z.to_nat (Z.rem idx (Z.of_nat (length args)))) args (EBool false) in
                let st0 := ns_set st (f_exec fr) id (NSCycle (idx + 1)) in
                (* {% cycle name %} where name holds a cycle value advances that cycle *)
                let cyc := match item with
                           | EFilt (EVar [PIdent nm None]) [] =>
                               match ctx_get nm (f_priv fr) with
                               | Some (CCycle cid cargs csilent _) => Some (nm, cid, cargs, csilent)
                               | _ => None
                               end
                           | _ => None
                           end in
                match cyc with
                | Some (nm, cid, cargs, csilent) =>
                    let cidx := match ns_get (f_exec fr) cid (ms_nodes st0) with Some (NSCycle i) => i | _ => 0%Z end in
                    let citem := nth (Z.to_nat (Z.rem cidx (Z.of_nat (length cargs)))) cargs (EBool false) in
                    let st1 := ns_set st0 (f_exec fr) cid (NSCycle (cidx + 1)) in
                    match eval se globals f st1 citem with
                    | Ok (v, st2) =>
                        match set_priv st2 nm (CCycle cid cargs csilent v) with
                        | Ok st3 => if csilent then xok [] st3 else cycle_out fr citem v st3
                        | other => xfail [] other
                        end
                    | other => xfail [] other
                    end
                | None =>
                    match eval se globals f st0 item with
                    | Ok (v, st1) =>
                        match (match asname with
                               | [] => Ok st1
                               | _ => set_priv st1 asname (CCycle id args silent v)
                               end) with
                        | Ok st2 => if silent then xok [] st2 else cycle_out fr item v st2
                        | other => xfail [] other
                        end
                    | other => xfail [] other
                    end
                end
            | other => xfail [] other
            end
        | NIfchanged id watched thenb elseb =>
            match top_frame st with
            | Ok fr =>
                let prev := ns_get (f_exec fr) id (ms_nodes st) in
                match watched with
                | [] =>
                    match exec_nodes se globals f st thenb with
                    | (o, Ok st1) =>
                        let lastc := match prev with Some (NSIfchanged _ (Some c)) => Some c | _ => None end in
                        let same := match lastc with Some c => str_eqb c o | None => Nat.eqb (length o) 0 end in
                        if same then xok [] st1
                        else xok o (ns_set st1 (f_exec fr) id (NSIfchanged [] (Some o)))
                    | (_, other) => ([], other)
                    end
                | _ =>
                    match eval_list se globals f st watched with
                    | Ok (now, st1) =>
                        let lastv := match prev with Some (NSIfchanged l _) => l | _ => [] end in
                        match (match lastv with
                               | [] => Some true
                               | _ => fold_right (fun pr acc =>
                                                    match acc, equal_value_to (vv (fst pr)) (vv (snd pr)) with
                                                    | None, _ | _, None => None
                                                    | Some a, Some eq => Some (a || negb eq)
                                                    end) (Some false) (combine lastv now)
                               end) with
                        | None => ([], Unmod)
                        | Some changed =>
                            let st2 := ns_set st1 (f_exec fr) id (NSIfchanged now None) in
                            if changed then exec_nodes se globals f st2 thenb
                            else match elseb with Some eb => exec_nodes se globals f st2 eb | None => xok [] st2 end
                        end
                    | other => xfail [] other
                    end
                end
            | other => xfail [] other
            end
        | NIfequal negated a b thenb elseb =>
            ev a (fun x st1 =>
              match eval se globals f st1 b with
              | Ok (y, st2) =>
                  match equal_value_to (vv x) (vv y) with
                  | None => ([], Unmod)
                  | Some eq =>
                      if Bool.eqb eq (negb negated) then exec_nodes se globals f st2 thenb
                      else match elseb with Some eb => exec_nodes se globals f st2 eb | None => xok [] st2 end
                  end
              | other => xfail [] other
              end)
        | NSpaceless body =>
            match exec_nodes se globals f st body with
            | (o, Ok st1) => match spaceless_model o with Some s => xok s st1 | None => ([], Unmod) end
            | (_, other) => ([], other)
            end
        | NTemplatetag content => xok content st
        | NWidthratio cur mx width ctxname =>
            ev cur (fun c st1 =>
              match eval se globals f st1 mx with
              | Ok (m, st2) =>
                  match eval se globals f st2 width with
                  | Ok (w, st3) =>
                      match to_float (vv c), to_float (vv m), to_float (vv w) with
                      | Some fc, Some fm, Some fw =>
                          let v := if f_is_zero fm then 0%Z else f_round_to_int (f_mul (f_div fc fm) fw) in
                          match ctxname with
                          | [] => xok (itoa v) st3
                          | _ => match set_priv st3 ctxname (CV (as_value (VInt v))) with
                                 | Ok st4 => xok [] st4
                                 | other => xfail [] other
                                 end
                          end
                      | _, _, _ => ([], Unmod)
                      end
                  | other => xfail [] other
                  end
              | other => xfail [] other
              end)
        | NComment => xok [] st
        | NSsi content tplo =>
            match tplo with
            | None => xok content st
            | Some t =>
                match top_frame st with
                | Ok fr => exec_template_unbuffered se globals f st t (ctx_update (f_pub fr) (f_priv fr))
                | other => xfail [] other
                end
            end
        | NUnmod => ([], Unmod)
        end.
  Proof. reflexivity. Qed.

  Lemma exec_if_S : forall (f : nat) (st : mstate) (conds : list expr) (wrappers : list (list node)) (i : nat),
    exec_if se globals (S f) st conds wrappers i =
        match nth_error conds i with
        | None => xok [] st
        | Some c =>
            match eval se globals f st c with
            | Ok (v, st1) =>
                if is_true (vv v) then
                  match nth_error wrappers i with Some w => exec_nodes se globals f st1 w | None => ([], Panic 97) end
                else if Nat.eqb (length conds) (S i) && Nat.ltb (S i) (length wrappers) then
                  match nth_error wrappers (S i) with Some w => exec_nodes se globals f st1 w | None => ([], Panic 98) end
                else exec_if se globals f st1 conds wrappers (S i)
            | other => xfail [] other
            end
        end.
  Proof. reflexivity. Qed.

  Lemma exec_for_S : forall (f : nat) (st : mstate) (key value : str) (parent : val) (body : list node) (items : list (val * option val)) (idx count : Z),
    exec_for se globals (S f) st key value parent body items idx count =
        match items with
        | [] => xok [] st
        | (k, vo) :: rest =>
            match top_frame st with
            | Ok fr =>
                let p1 := ctx_set key (CV (as_value k)) (f_priv fr) in
                let p2 := match vo with Some v => ctx_set value (CV (as_value v)) p1 | None => p1 end in
                let p3 := ctx_set [102; 111; 114; 108; 111; 111; 112] (* forloop *) (CV (as_value (loop_struct idx count parent))) p2 in
                match exec_nodes se globals f (set_top st (with_priv fr p3)) body with
                | (o1, Ok st1) => let '(o2, r) := exec_for se globals f st1 key value parent body rest (idx + 1) count in (o1 ++ o2, r)
                | other => other
                end
            | other => xfail [] other
            end
        end.
  Proof. reflexivity. Qed.

  Lemma exec_firstof_S : forall (f : nat) (st : mstate) (args : list expr),
    exec_firstof se globals (S f) st args =
        match args with
        | [] => xok [] st
        | a :: rest =>
            match eval se globals f st a with
            | Ok (v, st1) =>
                if is_true (vv v) then
                  match top_frame st1 with
                  | Ok fr =>
                      match to_string (vv v) with
                      | None => ([], Unmod)
                      | Some s => if f_auto fr && negb (filter_applied [115; 97; 102; 101] (* safe *) a) then xok (filter_escape s) st1 else xok s st1
                      end
                  | other => xfail [] other
                  end
                else exec_firstof se globals f st1 rest
            | other => xfail [] other
            end
        end.
  Proof. reflexivity. Qed.

  Lemma eval_pairs_S : forall (f : nat) (st : mstate) (pairs : list (str * expr)),
    eval_pairs se globals (S f) st pairs =
        match pairs with
        | [] => Ok ([], st)
        | (k, e) :: rest =>
            do '(v, st1) <- eval se globals f st e;
            do '(r, st2) <- eval_pairs se globals f st1 rest;
            Ok ((k, CV v) :: r, st2)
        end.
  Proof. reflexivity. Qed.

  Lemma apply_tag_chain_S : forall (f : nat) (st : mstate) (v : value) (chain : list (str * option expr)),
    apply_tag_chain se globals (S f) st v chain =
        match chain with
        | [] => Ok (v, st)
        | (name, param) :: rest =>
            do '(p, st1) <- (match param with Some pe => eval se globals f st pe | None => Ok (as_value VNil, st) end);
            do r <- apply_filter_se se name v p;
            apply_tag_chain se globals f st1 r rest
        end.
  Proof. reflexivity. Qed.

  Lemma exec_template_S : forall (f : nat) (st : mstate) (t : template) (ctx : list (str * cval)),
    exec_template se globals (S f) st t ctx =
        match exec_template_unbuffered se globals f st t ctx with
        | (o, Ok st1) => xok o st1
        | (_, other) => ([], other)
        end.
  Proof. reflexivity. Qed.

  Lemma exec_template_unbuffered_S : forall (f : nat) (st : mstate) (t : template) (ctx : list (str * cval)),
    exec_template_unbuffered se globals (S f) st t ctx =
        let merged := ctx_update globals ctx in
        (* (a non-nil context is assumed, as every caller in pongo2 and the harness passes one) *)
        if negb (forallb (fun kv => is_ident_key (fst kv)) merged) then ([], Err 3)
        else if existsb (fun kv => match assoc_get (fst kv) (tpl_exported t) with Some _ => true | None => false end)
                        merged then ([], Err 3)
        else
          let '(execid, g') := g_fresh (ms_g st) in
          let fr := root_frame globals t ctx execid in
          let root := hd t (tpl_chain t) in
          match exec_nodes se globals f (mkM (fr :: ms_frames st) (ms_nodes st) g') (tpl_root root) with
          | (o, Ok st1) => xok o (pop_frame st1)
          | other => other
          end.
  Proof. reflexivity. Qed.
End Unfold.
